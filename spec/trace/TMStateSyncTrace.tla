---------------------------- MODULE TMStateSyncTrace ----------------------------
(* Trace validation for C14: observations of the real statesync syncer / chunkQueue /
   snapshotPool (harness/inpkg/statesync/zz_verif_c14_test.go) against TMStateSync.

   Mode D lines (deterministic driver, one line = one environment / gate step followed by
   the applier running until it blocks again) carry the projected post-state:
     level 1: the post-state must be one of SettleSet(step(pre-state))        -> drift
     level 2: the *Ok predicates of TMStateSync on the OBSERVED call arguments, with the
              ghost G driven by the observed verdicts only                   -> viol
   Mode F lines (free running fetcher goroutines) carry no projection; only order-robust
   level-2 rules are evaluated (see StepF).                                              *)
EXTENDS TMStateSyncOps, TraceKit

Trace == LoadTrace("trace.ndjson")

VARIABLES l, S, G, viol, drift
tvars == <<l, S, G, viol, drift>>

SeqSet(s) == {s[i] : i \in DOMAIN s}
PoolOf(ps) == [s \in {ps[i].s : i \in DOMAIN ps} |-> SeqSet((CHOOSE x \in SeqSet(ps) : x.s = s).peers)]
BlOf(b)    == [snap |-> SeqSet(b.snap), fmt |-> SeqSet(b.fmt), peer |-> SeqSet(b.peer)]
QOf(qq)    == [open |-> qq.open, n |-> qq.n, e |-> [i \in 0..(qq.n - 1) |-> qq.e[i + 1]], rej |-> SeqSet(qq.rej)]

\* level-2 ghost, driven by observed events only
\*   late[i]: the stored instance of i arrived when its sender was already rejected
G0 == [rej |-> EmptyBl, applied |-> {}, must |-> {}, used |-> {}, inst |-> << >>, late |-> {},
       verified |-> FALSE, cur |-> NoSnap, retry |-> FALSE,
       \* mode F only
       settled |-> EmptyBl, fsettled |-> << >>, sent |-> {}, failed |-> {}, inflight |-> {}, usedb |-> {}]

Init == l = 1 /\ S = S0 /\ G = G0 /\ viol = {} /\ drift = {}

D(what)      == [l |-> l, what |-> what]
V(inv, class) == [l |-> l, inv |-> inv, class |-> class]

\* ------------------------------------------------------------ level 1 helpers
Matches(T, P) ==
  /\ T.pool = PoolOf(P.pool) /\ T.bl = BlOf(P.bl) /\ T.sy.pc = P.pc /\ T.sy.active = P.active
  /\ P.active => (T.q = QOf(P.q) /\ T.sy.cur = P.cur)

\* install the observed projection over a predicted state
Installed(T, P) ==
  LET q2 == IF P.active THEN QOf(P.q) ELSE T.q
      w2 == IF P.pc = "wait" /\ {i \in QIdx(q2) : q2.e[i].ret /\ q2.e[i].b = Nil} # {}
            THEN SetMin({i \in QIdx(q2) : q2.e[i].ret /\ q2.e[i].b = Nil}) ELSE T.sy.w
  IN [T EXCEPT !.pool = PoolOf(P.pool), !.bl = BlOf(P.bl), !.q = q2,
               !.sy.pc = P.pc, !.sy.active = P.active, !.sy.w = w2,
               !.sy.cur = IF P.active THEN P.cur ELSE T.sy.cur]

\* cands: the design spec's possible post-states; P: observed projection
NextS(cands, P) ==
  IF \E T \in cands : Matches(T, P) THEN CHOOSE T \in cands : Matches(T, P)
  ELSE Installed(IF cands = {} THEN S ELSE CHOOSE T \in cands : TRUE, P)
DriftIf(cands, P, what) == FailIf(~\E T \in cands : Matches(T, P), D(what))

ResClass(r) == IF r \in {"dup", "closed", "rejected"} THEN "ignored" ELSE r

\* the sync attempt ends inside this line (a new queue may have been created before the
\* applier blocked again)
Resets(e) ==
  \/ e.ev = "Start"
  \/ e.ev = "Provider" /\ e.ans # "ok"
  \/ e.ev = "Offer" /\ e.v # "accept"
  \/ e.ev = "Apply" /\ e.v \in {"abort", "reject_snapshot", "error"}
  \/ e.ev = "Info" \/ e.ev = "Timeout"

\* a fresh queue: forget the stored instances
FreshQueue(g, e) ==
  IF e.ev = "Apply" /\ e.v = "retry_snapshot" THEN [g EXCEPT !.applied = {}]
  ELSE IF Resets(e) /\ e.post.active
  THEN [g EXCEPT !.inst = NoInst(e.post.cur.n), !.must = {}, !.used = {}, !.late = {}, !.applied = {},
                 !.cur = e.post.cur, !.verified = FALSE]
  ELSE g

\* ------------------------------------------------------------ mode D steps
StepAddSnapshot(e) ==
  LET r == XAddSnapshot(S, e.p, e.s) IN
  /\ S' = NextS({r.S}, e.post)
  /\ drift' = drift \cup DriftIf({r.S}, e.post, "AddSnapshot: post-state differs")
                    \cup FailIf(r.added # e.added, D("AddSnapshot: added differs"))
  /\ UNCHANGED <<G, viol>>

StepRemovePeer(e) ==
  LET c == {XRemovePeer(S, e.p)} IN
  /\ S' = NextS(c, e.post)
  /\ drift' = drift \cup DriftIf(c, e.post, "RemovePeer: post-state differs")
  /\ UNCHANGED <<G, viol>>

StepStart(e) ==
  LET c == SettleSet([S EXCEPT !.sy.pc = "pick"]) IN
  /\ S' = NextS(c, e.post)
  /\ drift' = drift \cup DriftIf(c, e.post, "Start: post-state differs")
  /\ G' = FreshQueue(G, e)
  /\ UNCHANGED viol

StepArrive(e) ==
  LET c  == [h |-> IF e.kind = "wrongsnap" THEN e.s.h + 7 ELSE e.s.h, f |-> e.s.f, i |-> e.i, b |-> e.b, s |-> e.p]
      r  == XArrive(S, c)
      cs == SettleSet(r.S)
      g1 == IF e.res = "added"
            THEN [G EXCEPT !.inst = [i \in DOMAIN @ \cup {e.i} |-> IF i = e.i THEN [b |-> e.b, s |-> e.p] ELSE @[i]],
                           !.must = @ \ {e.i}, !.used = @ \ {e.i},
                           !.late = IF e.p \in G.rej.peer THEN @ \cup {e.i} ELSE @ \ {e.i}]
            ELSE G
  IN /\ S' = NextS(cs, e.post)
     /\ drift' = drift \cup DriftIf(cs, e.post, "Arrive: post-state differs")
                       \cup FailIf(ResClass(r.res) # e.res, D("Arrive: result differs"))
     /\ G' = g1
     /\ UNCHANGED viol

StepProvider(e) ==
  LET ok == S.sy.pc = e.which /\ S.sy.cur = e.s /\ S.sy.cur.h = e.h
      pre == [S EXCEPT !.sy.pc = e.which, !.sy.cur = e.s]
      cs == SettleSet(XProvider(pre, e.ans))
      \* a provider failure ends the attempt: whatever is offered next is not the retried queue
      g1 == IF e.ans = "ok" THEN G
            ELSE [G EXCEPT !.rej.snap = IF e.ans = "fail" THEN @ \cup {e.s} ELSE @, !.retry = FALSE]
  IN /\ S' = NextS(cs, e.post)
     /\ drift' = drift \cup DriftIf(cs, e.post, "Provider: post-state differs")
                       \cup FailIf(~ok, D("Provider: unexpected call"))
                       \* the provider is asked about the snapshot's own height (a wrong answer
                       \* shows at Offer / End, where TrustedOnly is judged)
                       \cup FailIf(e.h # e.s.h, D("Provider: asked about another height"))
     /\ G' = FreshQueue(g1, e)
     /\ UNCHANGED viol

StepOffer(e) ==
  LET ok == S.sy.pc = "offer" /\ S.sy.cur = e.s /\ S.sy.tah = e.apphash
      pre == [S EXCEPT !.sy.pc = "offer", !.sy.cur = e.s, !.sy.tah = e.apphash]
      cs == SettleSet(XOffer(pre, e.v))
      \* nothing was applied or asked to be refetched yet in a sync that is not a retry
      \* (also keeps the ghost sane after a step the driver did not intend, e.g. a timeout)
      \* (a retry keeps the queue only if it really is the same snapshot that is offered again)
      gr == IF G.retry /\ e.s = G.cur THEN G ELSE [G EXCEPT !.must = {}, !.used = {}]
      g0 == [gr EXCEPT !.applied = {}, !.verified = FALSE, !.cur = e.s, !.retry = FALSE]
      g1 == CASE e.v = "reject"        -> [g0 EXCEPT !.rej.snap = @ \cup {e.s}]
              [] e.v = "reject_format" -> [g0 EXCEPT !.rej.fmt = @ \cup {e.s.f}]
              [] e.v = "reject_sender" -> [g0 EXCEPT !.rej.peer = @ \cup PeersOf(S.pool, e.s)]
              [] OTHER -> g0
  IN /\ S' = NextS(cs, e.post)
     /\ drift' = drift \cup DriftIf(cs, e.post, "Offer: post-state differs")
                       \cup FailIf(~ok, D("Offer: unexpected call or arguments"))
     /\ G' = FreshQueue(g1, e)
     /\ viol' = viol
          \cup FailIf(~OfferTrustedOk(e.s, e.apphash), V("TrustedOnly", "offer_apphash"))
          \cup FailIf(e.s \in G.rej.snap, V("NeverReused", "offer_rejected_snapshot"))
          \cup FailIf(e.s \notin G.rej.snap /\ e.s.f \in G.rej.fmt, V("NeverReused", "offer_rejected_format"))

StepApply(e) ==
  LET rf == SeqSet(e.rf)
      rs == SeqSet(e.rs)
      ok == S.sy.pc = "apply" /\ S.sy.ld = [i |-> e.i, b |-> e.b, s |-> e.sender]
      pre == [S EXCEPT !.sy.pc = "apply", !.sy.ld = [i |-> e.i, b |-> e.b, s |-> e.sender]]
      cs == SettleSet(XApply(pre, e.v, rf, rs))
      n  == e.s.n
      g1 == [G EXCEPT !.used = (@ \cup {e.i}) \ rf,
                      !.applied = AppliedAfter(@, e.i, e.v, rf),
                      !.must = @ \cup rf,
                      !.rej.peer = @ \cup rs,
                      !.rej.snap = IF e.v = "reject_snapshot" THEN @ \cup {e.s} ELSE @,
                      !.retry = e.v = "retry_snapshot"]
      inst == IF e.i \in DOMAIN G.inst THEN G.inst ELSE NoInst(n)
      sameq == e.post.active /\ e.post.cur = e.s /\ e.v \in {"accept", "retry", "retry_snapshot"}
      P == QOf(e.post.q)
  IN /\ S' = NextS(cs, e.post)
     /\ drift' = drift \cup DriftIf(cs, e.post, "Apply: post-state differs")
                       \cup FailIf(~ok, D("Apply: unexpected call or arguments"))
     /\ G' = FreshQueue(g1, e)
     /\ viol' = viol
          \cup FailIf(~InOrderOk(n, G.applied, e.i), V("InOrder", "apply_out_of_order"))
          \cup FailIf(~AsRecordedOk(inst, e.i, e.b, e.sender), V("AsRecorded", "bytes_or_sender"))
          \cup FailIf(~RefetchOk(G.must, e.i), V("RefetchHonoured", "stale_chunk_applied"))
          \cup FailIf(~SenderFreshOk(G.rej, G.used, e.i, e.sender),
                      V("NeverReused", IF e.i \in G.late THEN "late_chunk_rejected_sender"
                                                         ELSE "queued_chunk_rejected_sender"))
          \* the refetched chunks are gone from the queue and can be allocated again
          \* (Discard of a chunk that is not stored is a no-op: somebody is still fetching it)
          \cup FailIf(e.v # "error" /\ sameq /\ \E j \in rf : QHas(S.q, j) /\ j \in QIdx(P) /\ (P.e[j].b # Nil \/ P.e[j].alloc),
                      V("RefetchHonoured", "not_discarded"))

StepInfo(e) ==
  LET ok == S.sy.pc = "verify" /\ S.sy.cur = e.s
      pre == [S EXCEPT !.sy.pc = "verify", !.sy.cur = e.s]
      cs == SettleSet(XInfo(pre, e.ans))
  IN /\ S' = NextS(cs, e.post)
     /\ drift' = drift \cup DriftIf(cs, e.post, "Info: post-state differs")
                       \cup FailIf(~ok, D("Info: unexpected call"))
     \* not FreshQueue: the End line that may follow needs applied / must / cur
     /\ G' = [G EXCEPT !.verified = InfoVerifies(e.s, e.ans)]
     /\ UNCHANGED viol

StepTimeout(e) ==
  LET cs == SettleSet(XTimeout([S EXCEPT !.sy.pc = "wait"])) IN
  /\ S' = NextS(cs, e.post)
  /\ drift' = drift \cup DriftIf(cs, e.post, "Timeout: post-state differs")
                    \cup FailIf(S.sy.pc # "wait", D("Timeout: applier was not waiting"))
  /\ G' = FreshQueue([G EXCEPT !.rej.snap = @ \cup {e.s}], e)
  /\ UNCHANGED viol

StepFetcherAllocate(e) ==
  LET i  == AllocUp(S.q)
      cs == IF i >= 0 THEN {XFetcherAllocate(S)} ELSE {S} IN
  /\ S' = NextS(cs, e.post)
  /\ drift' = drift \cup DriftIf(cs, e.post, "FetcherAllocate: post-state differs")
                    \cup FailIf(i # e.i, D("FetcherAllocate: index differs"))
  /\ UNCHANGED <<G, viol>>

\* requestChunk calls made by the driver in the fetchers' place
StepRequests(e) ==
  /\ S' = NextS({S}, e.post)
  /\ drift' = drift \cup DriftIf({S}, e.post, "Requests: post-state differs")
                    \cup FailIf(\E k \in DOMAIN e.reqs : e.reqs[k].p \notin PeersOf(S.pool, e.s)
                                   \/ e.reqs[k].h # e.s.h \/ e.reqs[k].f # e.s.f,
                                D("Requests: peer does not advertise the snapshot"))
  /\ viol' = viol
       \cup FailIf(\E k \in DOMAIN e.reqs : e.reqs[k].p \in G.rej.peer, V("NeverReused", "ask_rejected_peer"))
       \cup FailIf(e.reqs # << >> /\ (e.s \in G.rej.snap \/ e.s.f \in G.rej.fmt), V("NeverReused", "ask_rejected_snapshot"))
  /\ UNCHANGED G

StepEnd(e) ==
  LET n == G.cur.n IN
  /\ S' = S
  /\ drift' = drift \cup FailIf(S.gh.out.kind # e.kind, D("End: outcome differs"))
  /\ viol' = viol
       \cup FailIf(e.kind = "done" /\ ~ResultTrustedOk(G.cur, e.st, e.cm), V("TrustedOnly", "result"))
       \cup FailIf(e.kind # "done" /\ (e.st # NoState \/ e.cm # NoCommit), V("TrustedOnly", "state_without_done"))
       \cup FailIf(e.kind = "done" /\ ~G.verified, V("VerifiedBeforeDone", "done_unverified"))
       \cup FailIf(e.kind = "done" /\ ~DoneChunksOk(n, G.applied, G.must), V("InOrder", "done_incomplete"))
  /\ UNCHANGED G

StepReset(e) == S' = S0 /\ G' = G0 /\ UNCHANGED <<viol, drift>>

StepD(e) ==
  CASE e.ev = "AddSnapshot"     -> StepAddSnapshot(e)
    [] e.ev = "RemovePeer"      -> StepRemovePeer(e)
    [] e.ev = "Start"           -> StepStart(e)
    [] e.ev = "Arrive"          -> StepArrive(e)
    [] e.ev = "Provider"        -> StepProvider(e)
    [] e.ev = "Offer"           -> StepOffer(e)
    [] e.ev = "Apply"           -> StepApply(e)
    [] e.ev = "Info"            -> StepInfo(e)
    [] e.ev = "Timeout"         -> StepTimeout(e)
    [] e.ev = "FetcherAllocate" -> StepFetcherAllocate(e)
    [] e.ev = "Requests"        -> StepRequests(e)
    [] e.ev = "End"             -> StepEnd(e)

\* ------------------------------------------------------------ mode F steps
(* Real fetcher goroutines, peers answering requests, an app drawing its own verdicts: the
   lines are in the order in which they were logged (one mutex), which is the real order
   only per goroutine.  Rules used (each one can only miss, never raise a false alarm):
   * the applier's lines (Provider, Offer, Apply, Info, End) are in program order.  A verdict
     line is logged when the app is CALLED; the rejection it carries takes effect later, when
     applyChunks / SyncAny execute RejectPeer, DiscardSender, Reject ...  That handling is
     complete when the applier's NEXT line is logged.  So at every applier line
     G.settled := the rejections of all EARLIER lines (never those of the line itself);
   * a fetcher's Request follows its own Fetch line, and GetPeer (the choice of the peer) is
     between the two.  A request to p is judged against (a) the rejections that were settled
     when that fetcher logged its Fetch, and (b) the pool's own peer blacklist as the harness
     read it under the pool mutex at that Fetch (e.bl): both are facts that held before the
     choice was made; a choice made before the rejection took effect is never flagged;
   * a chunk instance is "sent" before AddChunk is called and "added/ignored" after it
     returned; instances in flight at a refetch verdict make the refetch check skip.     *)
Applier(e) == e.ev \in {"Provider", "Offer", "Apply", "Info", "End"}
\* G (unprimed) is the ghost BEFORE the current line: its rejections are handled by now
Settle(g) == [g EXCEPT !.settled = G.rej]

FOffer(e) ==
  LET g0 == IF G.retry /\ e.s = G.cur THEN G ELSE [G EXCEPT !.must = {}, !.usedb = {}]
      g1 == [g0 EXCEPT !.applied = {}, !.verified = FALSE, !.cur = e.s, !.retry = FALSE]
      g2 == CASE e.v = "reject"        -> [g1 EXCEPT !.rej.snap = @ \cup {e.s}]
              [] e.v = "reject_format" -> [g1 EXCEPT !.rej.fmt = @ \cup {e.s.f}]
              [] OTHER -> g1             \* reject_sender: the pool is not observed in mode F
  IN /\ G' = Settle(g2)
     /\ viol' = viol
          \cup FailIf(~OfferTrustedOk(e.s, e.apphash), V("TrustedOnly", "offer_apphash"))
          \cup FailIf(e.s \in G.rej.snap, V("NeverReused", "offer_rejected_snapshot"))
          \cup FailIf(e.s \notin G.rej.snap /\ e.s.f \in G.rej.fmt, V("NeverReused", "offer_rejected_format"))

FApply(e) ==
  LET rf == SeqSet(e.rf)
      rs == SeqSet(e.rs)
      flying(j) == \E r \in G.sent : r.i = j /\ r.x \in G.inflight
      recorded == \E r \in G.sent : r.i = e.i /\ r.b = e.b /\ r.p = e.sender /\ r.x \notin G.failed
      g1 == [G EXCEPT !.usedb = @ \cup {e.b},
                      !.applied = AppliedAfter(@, e.i, e.v, rf),
                      !.must = @ \cup {j \in rf : ~flying(j)},
                      !.rej.peer = @ \cup rs,
                      !.rej.snap = IF e.v = "reject_snapshot" THEN @ \cup {e.s} ELSE @,
                      !.retry = e.v = "retry_snapshot"]
  IN /\ G' = Settle(g1)
     /\ viol' = viol
          \cup FailIf(~InOrderOk(e.s.n, G.applied, e.i), V("InOrder", "apply_out_of_order"))
          \cup FailIf(~recorded, V("AsRecorded", "bytes_or_sender"))
          \cup FailIf(~RefetchOk(G.must, e.i), V("RefetchHonoured", "stale_chunk_applied"))
          \cup FailIf(e.sender \in G.rej.peer /\ e.b \notin G.usedb, V("NeverReused", "chunk_rejected_sender"))

FEnd(e) ==
  /\ G' = Settle(G)
  /\ viol' = viol
       \cup FailIf(e.kind = "done" /\ ~ResultTrustedOk(G.cur, e.st, e.cm), V("TrustedOnly", "result"))
       \cup FailIf(e.kind # "done" /\ (e.st # NoState \/ e.cm # NoCommit), V("TrustedOnly", "state_without_done"))
       \cup FailIf(e.kind = "done" /\ ~G.verified, V("VerifiedBeforeDone", "done_unverified"))
       \cup FailIf(e.kind = "done" /\ ~DoneChunksOk(G.cur.n, G.applied, G.must), V("InOrder", "done_incomplete"))

StepF(e) ==
  /\ S' = S /\ drift' = drift
  /\ CASE e.ev = "Provider" ->
            \* a provider failure ends the attempt (also a retried one: the queue is closed)
            /\ G' = Settle(IF e.ans = "ok" THEN G
                           ELSE [G EXCEPT !.rej.snap = IF e.ans = "fail" THEN @ \cup {e.s} ELSE @, !.retry = FALSE])
            /\ UNCHANGED viol
       [] e.ev = "Offer" -> FOffer(e)
       [] e.ev = "Apply" -> FApply(e)
       [] e.ev = "Info"  -> G' = Settle([G EXCEPT !.verified = InfoVerifies(e.s, e.ans)]) /\ UNCHANGED viol
       [] e.ev = "End"   -> FEnd(e)
       [] e.ev = "Fetch" ->
            /\ G' = [G EXCEPT !.fsettled = [g \in DOMAIN @ \cup {e.g} |->
                                              IF g = e.g THEN [G.settled EXCEPT !.snap = SeqSet(e.bl)] ELSE @[g]]]
            /\ UNCHANGED viol
       [] e.ev = "Request" ->
            /\ viol' = viol
                 \cup FailIf(e.g \in DOMAIN G.fsettled /\ e.p \in G.fsettled[e.g].peer, V("NeverReused", "ask_rejected_peer"))
                 \* (the .snap field of fsettled[g] carries the pool's peer blacklist observed at the Fetch)
                 \cup FailIf(e.g \in DOMAIN G.fsettled /\ e.p \notin G.fsettled[e.g].peer /\ e.p \in G.fsettled[e.g].snap,
                             V("NeverReused", "ask_blacklisted_peer"))
                 \cup FailIf(e.g \in DOMAIN G.fsettled /\ e.f \in G.fsettled[e.g].fmt, V("NeverReused", "ask_rejected_format"))
            /\ UNCHANGED G
       [] e.ev = "ChunkSend" ->
            /\ G' = [G EXCEPT !.sent = @ \cup {[x |-> e.x, i |-> e.i, b |-> e.b, p |-> e.p]},
                              !.inflight = @ \cup {e.x}, !.must = @ \ {e.i}]
            /\ UNCHANGED viol
       [] e.ev = "ChunkAdded" ->
            /\ G' = [G EXCEPT !.inflight = @ \ {e.x}, !.failed = IF e.res = "added" THEN @ ELSE @ \cup {e.x}]
            /\ UNCHANGED viol
       [] OTHER -> UNCHANGED <<G, viol>>

\* ------------------------------------------------------------ mode P: the real state provider
(* One line = one call of the real lightClientStateProvider (real light.Client, scripted
   primary / witness / RPC server).  e.chain is the honest chain (what the validators
   signed); whatever the providers say, an answer that is returned must be the function of
   that chain that stateprovider.go documents.                                            *)
StepP(e) ==
  LET lb == [h \in 1..Len(e.chain) |-> e.chain[h]]
      avail == SPNeeds(e.call, e.h) \subseteq DOMAIN lb
      touched == e.lie # "none" /\ (e.lie \in {"fork_primary", "fork_witness"} \/ e.at \in SPNeeds(e.call, e.h) \/ e.lie = "params")
  IN /\ S' = S /\ G' = G
     /\ drift' = drift
          \cup FailIf(e.lie = "none" /\ avail /\ ~e.ok, D("SP: honest call failed"))
          \cup FailIf(e.ok /\ touched /\ e.lie # "missing", D("SP: call succeeded although a needed block was falsified"))
     /\ viol' = viol
          \cup FailIf(e.ok /\ ~avail, V("TrustedOnly", "provider_answer_without_block"))
          \cup FailIf(e.ok /\ avail /\ e.call = "apphash" /\ e.hash # SPAppHashOf(lb, e.h), V("TrustedOnly", "provider_apphash"))
          \cup FailIf(e.ok /\ avail /\ e.call = "state" /\ e.st # SPStateOf(lb, e.h), V("TrustedOnly", "provider_state"))
          \cup FailIf(e.ok /\ avail /\ e.call = "commit" /\ e.cm # SPCommitOf(lb, e.h), V("TrustedOnly", "provider_commit"))

Step ==
  /\ l <= Len(Trace)
  /\ LET e == Trace[l] IN
       IF e.ev = "Reset" THEN StepReset(e)
       ELSE IF e.mode = "F" THEN StepF(e)
       ELSE IF e.mode = "P" THEN StepP(e)
       ELSE StepD(e)
  /\ l' = l + 1

Finish ==
  /\ l = Len(Trace) + 1
  /\ WriteVerdict("verdict.json", Len(Trace), viol, drift)
  /\ l' = l + 1
  /\ UNCHANGED <<S, G, viol, drift>>

Next == Step \/ Finish
=============================================================================
