---------------------------- MODULE TMMerkleTrace ----------------------------
(* Trace validation for C10: observations of the real crypto/merkle.Proof.Verify and
   types.PartSet.AddPart against TMMerkle.                                        *)
EXTENDS TMMerkle, TraceKit

Trace == LoadTrace("trace.ndjson")

VARIABLES l, data, hdr, slots, viol, drift
vars == <<l, data, hdr, slots, viol, drift>>

Init == l = 1 /\ data = << >> /\ hdr = GenuineHeader(<< >>) /\ slots = << >> /\ viol = {} /\ drift = {}

\* ------------------------------------------------------------ proof cases
StepVerify(e) ==
  LET root == Root(e.leaves)
      spec == Verify(e.proof, root, e.item)
      gen  == Proof(e.leaves, e.pos)
      alias == ShapeAlias(e.leaves, e.proof, e.item)
  IN /\ drift' = drift
           \cup FailIf(spec # e.accepted, [l |-> l, what |-> "Verify verdict differs from spec", spec |-> spec])
           \cup FailIf(e.genproof # gen, [l |-> l, what |-> "ProofsFromByteSlices differs from spec", spec |-> FALSE])
           \cup FailIf(e.root # root, [l |-> l, what |-> "root differs from spec", spec |-> FALSE])
     /\ viol' = viol
           \cup FailIf(e.accepted /\ ~Binds(e.leaves, e.proof, e.item),
                       [l |-> l, inv |-> "ProofBinds",
                        class |-> IF alias THEN "shape_alias" ELSE "mut:" \o e.mut])
           \cup FailIf(e.proof = gen /\ e.item = e.leaves[e.pos + 1] /\ ~e.accepted,
                       [l |-> l, inv |-> "GenuineVerifies", class |-> "genuine_rejected"])
     /\ UNCHANGED <<data, hdr, slots>>

\* ------------------------------------------------------------ part set
StepReset(e) ==
  /\ data' = e.data
  \* the header the part set was created from: the genuine one of the data unless the run crafted another
  /\ hdr' = IF "hdr" \in DOMAIN e THEN e.hdr ELSE GenuineHeader(e.data)
  /\ slots' = [i \in 1..Len(e.data) |-> Nil]
  /\ drift' = drift \cup FailIf(e.root # Root(e.data) \/ e.total # Len(e.data),
                                [l |-> l, what |-> "header differs from spec", spec |-> FALSE])
  /\ UNCHANGED viol

StepAddPart(e) ==
  LET r    == AddPart(hdr, slots, e.part)
      post == e.post.slots
      cls  == IF e.part.index < Len(data) /\ e.part.proof.index # e.part.index THEN "proof_index_ne_part_index"
              ELSE IF e.part.proof.total # Len(data) THEN "proof_total_ne_header_total"
              ELSE IF e.part.proof.ibig # 0 \/ e.part.proof.big # 0 THEN "proof_position_high_bits"
              ELSE "other"
  IN /\ slots' = post
     /\ data' = data
     /\ hdr' = hdr
     /\ drift' = drift \cup FailIf(r.slots # post \/ r.added # e.added \/ r.err # e.err,
                                   [l |-> l, what |-> "AddPart differs from spec", spec |-> r.added])
     /\ viol' = viol
           \* reported at the step that breaks it (the wrong content stays in the slot afterwards)
           \cup FailIf(\E i \in DOMAIN post : post[i] # Nil /\ post[i] # data[i] /\ slots[i] = Nil,
                       [l |-> l, inv |-> "PartBinds", class |-> cls])
           \cup FailIf(Complete(post) /\ ~Complete(slots) /\ (post # data \/ e.post.reasm # "equal"),
                       [l |-> l, inv |-> "Reassembles", class |-> cls])
           \cup FailIf(\E i \in DOMAIN slots : slots[i] # Nil /\ post[i] # slots[i],
                       [l |-> l, inv |-> "Idempotent", class |-> cls])
           \cup FailIf(e.post.count # Count(post) \/ e.post.complete # Complete(post),
                       [l |-> l, inv |-> "CountExact", class |-> cls])
           \cup FailIf(e.added # (post # slots), [l |-> l, inv |-> "AddedIffChanged", class |-> cls])
           \* admitted only if the presented path authenticates the bytes at (part.index, header.total) under the header root
           \cup FailIf(e.added /\ ~PosProven(hdr, e.part), [l |-> l, inv |-> "AdmitOnlyProven", class |-> cls])
           \* a set that completes hashes (its parts, its own total) to the root it was created for
           \cup FailIf(Complete(post) /\ ~Complete(slots) /\ (Root(post) # hdr.root \/ e.post.root # hdr.root),
                       [l |-> l, inv |-> "CompleteMatchesHeader", class |-> cls])

\* several goroutines delivered genuine parts (indices e.delivered, with repeats) concurrently: the outcome
\* must be that of a sequential order — for genuine parts every order gives the same result
StepConcurrent(e) ==
  LET idx  == {e.delivered[i] : i \in DOMAIN e.delivered}
      want == [i \in 1..Len(data) |-> IF (i - 1) \in idx THEN data[i] ELSE Nil]
      post == e.post.slots
  IN /\ slots' = post
     /\ data' = data
     /\ hdr' = hdr
     /\ drift' = drift
     /\ viol' = viol
           \cup FailIf(post # want, [l |-> l, inv |-> "PartBinds", class |-> "concurrent_delivery"])
           \cup FailIf(e.post.count # Count(post) \/ e.post.complete # Complete(post),
                       [l |-> l, inv |-> "CountExact", class |-> "concurrent_delivery"])
           \cup FailIf(e.added_count # Cardinality(idx), [l |-> l, inv |-> "AddedIffChanged", class |-> "concurrent_delivery"])
           \cup FailIf(e.post.complete /\ (post # data \/ e.post.reasm # "equal"),
                       [l |-> l, inv |-> "Reassembles", class |-> "concurrent_delivery"])
           \cup FailIf(e.post.complete /\ e.post.root # hdr.root,
                       [l |-> l, inv |-> "CompleteMatchesHeader", class |-> "concurrent_delivery"])

Step ==
  /\ l <= Len(Trace)
  /\ LET e == Trace[l] IN
       CASE e.ev = "Verify"  -> StepVerify(e)
         [] e.ev = "Reset"   -> StepReset(e)
         [] e.ev = "AddPart" -> StepAddPart(e)
         [] e.ev = "ConcurrentAdd" -> StepConcurrent(e)
  /\ l' = l + 1

Finish ==
  /\ l = Len(Trace) + 1
  /\ WriteVerdict("verdict.json", Len(Trace), viol, drift)
  /\ l' = l + 1
  /\ UNCHANGED <<data, hdr, slots, viol, drift>>

Next == Step \/ Finish
=============================================================================
