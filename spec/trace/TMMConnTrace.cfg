CONSTANTS
  Weak_NoCapacityCheck = FALSE
  Weak_EOFIgnored = FALSE
  Weak_SharedRecvBuffer = FALSE
  Weak_NoRecover = FALSE
  Weak_EmptyMsgLost = FALSE
INIT Init
NEXT Next
CHECK_DEADLOCK FALSE
