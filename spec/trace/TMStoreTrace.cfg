CONSTANTS
  Weak_SaveMetaBeforeParts = FALSE
  Weak_BSSBeforeData = FALSE
  Weak_NoHashIndex = FALSE
  Weak_DeleteBeforeBaseMove = FALSE
  Weak_IntermediateBaseOffByOne = FALSE
  Weak_PruneDropsLastChanged = FALSE
  Weak_PruneDropsCheckpoint = FALSE
  Weak_PruneDropsParamsChanged = FALSE
INIT Init
NEXT Next
CHECK_DEADLOCK FALSE
