---------------------------- MODULE TMSignerTrace ----------------------------
(* Trace validation for C04: behaviour observed on the real privval.FilePV (signer half,
   harness/inpkg/privval) and on a real consensus.State + FilePV + BaseWAL across crashes
   and restarts (pipeline half, harness/inpkg/consensus), judged against TMSigner.

   Level 1 (drift): the observed step is not the step TMSigner/TMSignCrash predicts.
   Level 2 (viol) : a property of the design spec is false on the OBSERVED values:
       NoConflictingRelease   two messages handed back for one (h, r, step) differ
       PersistBeforeRelease   a signature was handed back while the sign-state file on disk
                              did not hold that HRS and signature
       HRSMonotone            the sign-state file went backwards                           *)
EXTENDS TMSigner, TraceKit

Trace == LoadTrace("trace.ndjson")

VARIABLES l,
          mem,        \* pv.LastSignState as last observed (Down after a crash)
          file,       \* the sign-state file as last observed
          released,   \* every message handed back with a nil error in this run
          unsynced,   \* pipeline half: WAL records written but not yet flushed+synced
          poisoned,   \* pipeline half: the WAL has been in one of the two situations in which the code
                      \* as it is loses synced records at a later start-up (see StepSign)
          viol, drift
vars == <<l, mem, file, released, unsynced, poisoned, viol, drift>>

Down == [h |-> -1, r |-> -1, s |-> -1, sb |-> NoSB, sig |-> NoSig]

Init == /\ l = 1 /\ mem = EmptyLSS /\ file = EmptyLSS /\ released = {} /\ unsynced = 0 /\ poisoned = FALSE
        /\ viol = {} /\ drift = {}

D(what, spec) == [l |-> l, what |-> what, spec |-> spec]
V(inv, class) == [l |-> l, inv |-> inv, class |-> class]

\* the relation of a request to the sign state it meets (part of a violation's class)
ReqClass(lss, q) ==
  LET s == StepOf(q.t) IN
  IF lss = Down THEN "down"
  ELSE IF lss.h = q.h /\ lss.r = q.r /\ lss.s = s THEN
         (IF lss.sb = SB(q) THEN "same_hrs_same_bytes"
          ELSE IF lss.sb.v = q.v THEN "same_hrs_other_timestamp" ELSE "same_hrs_other_block")
  ELSE IF HRSLt(q.h, q.r, s, lss.h, lss.r, lss.s) THEN
         (IF lss.h = q.h /\ lss.r = q.r THEN "step_regression" ELSE "hr_regression")
  ELSE "advance"

\* level-2 judgement of one message handed back (rel) given the file observed right after
ReleaseViol(e, rel, fileAfter, memBefore) ==
  LET bad == {a \in released : ~Compatible(a, rel)} IN
    FailIf(bad # {}, V("NoConflictingRelease",
                       e.req.t \o ":" \o ConflictClass(CHOOSE a \in bad : TRUE, rel) \o ":" \o ReqClass(memBefore, e.req)))
    \cup FailIf(~Persisted(fileAfter, rel), V("PersistBeforeRelease", e.req.t \o ":file_lacks_released_signature"))

FileViol(fileAfter, where) ==
  FailIf(fileAfter.h >= 0 /\ ~LssLeq(file, fileAfter), V("HRSMonotone", where))

\* ------------------------------------------------------------ both halves
StepReset(e) ==
  /\ mem' = e.mem /\ file' = e.file /\ released' = {} /\ unsynced' = 0 /\ poisoned' = FALSE
  /\ drift' = drift \cup FailIf(e.mem # EmptyLSS \/ e.file # EmptyLSS, D("fresh validator is not the empty sign state", "none"))
  /\ viol' = viol

(* one SignVote / SignProposal call that returned (signer half: ev "Sign"; pipeline half:
   ev "CsSign", the call made by consensus.State through the types.PrivValidator interface) *)
StepSign(e) ==
  LET res  == SignResult(mem, e.req)
      ok   == e.kind = "ok"
      rel  == Rel(e.req, e.out)
      specFile == IF res.kind = "new" THEN res.lss ELSE file
  IN /\ mem' = e.mem /\ file' = e.file
     /\ released' = IF ok THEN released \cup {rel} ELSE released
     /\ unsynced' = unsynced /\ poisoned' = poisoned
     /\ drift' = drift
          \cup FailIf(mem = Down, D("signing call on a signer that is down", "none"))
          \cup FailIf(mem # Down /\ (res.kind = "err") # (~ok), D("accept/refuse differs from spec", res.kind))
          \cup FailIf(mem # Down /\ ~ok /\ res.kind = "err" /\ res.err # e.err, D("error class differs from spec", res.err))
          \cup FailIf(mem # Down /\ ok /\ res.kind # "err" /\ res.out # e.out, D("returned message differs from spec", res.kind))
          \cup FailIf(mem # Down /\ res.lss # e.mem, D("memory sign state differs from spec", res.kind))
          \cup FailIf(mem # Down /\ specFile # e.file, D("sign-state file differs from spec", res.kind))
          \cup FailIf(ok /\ ~SigOverMessage(rel), D("returned signature is not over the returned message", res.kind))
          \cup FailIf(e.ev = "CsSign" /\ e.unsynced # 0, D("signing call with unsynced WAL tail", "flush"))
          \* NoSelfLockout of TMSignCrash.  Two behaviours of the WAL as it is make a later start-up
          \* lose records that were fsync'ed, so that the node forgets inputs it had synced before
          \* signing (TMSignCrash: ShortTornUndetected, EndHeight0IntoEmptyHead):
          \*   - a torn tail of 1..3 bytes is read as a clean end of the log, is not repaired, and the
          \*     NEXT restart drops every record appended behind it;
          \*   - "#ENDHEIGHT 0" is written into an empty head file although rotated files exist, and
          \*     catch-up replay never looks at the rotated files again.
          \* Runs in which one of the two has happened are labelled, not hidden.
          \cup FailIf(e.ev = "CsSign" /\ ~ok /\ e.err = "err_conflict" /\ e.req.t # "proposal",
                      D(IF poisoned THEN "vote refused as conflicting after the WAL lost synced records (short torn tail / #ENDHEIGHT 0 into an empty head): self lock-out, known WAL behaviour"
                                    ELSE "vote refused as conflicting with the node's own earlier vote (self lock-out)", res.kind))
     /\ viol' = viol
          \cup (IF ok THEN ReleaseViol(e, rel, e.file, mem) ELSE {})
          \cup FileViol(e.file, "sign:" \o e.req.t)

(* process death; the harness names the point (stage) and logs what is on disk afterwards.
   stage "renamed" = the state file was replaced but the call never returned; at every other
   point the state file must be what it was.                                              *)
StepCrash(e) ==
  LET res    == SignResult(mem, e.req)
      inSave == e.stage \in {"computed", "tmp", "renamed"}
      expect == IF e.stage = "renamed" /\ mem # Down /\ res.kind = "new" THEN res.lss ELSE file
      short  == "wal" \in DOMAIN e /\ e.wal.tornlen \in 1..3
  IN /\ mem' = Down /\ file' = e.file /\ released' = released /\ unsynced' = 0
     /\ poisoned' = (poisoned \/ short)
     /\ drift' = drift
          \cup FailIf(e.file # expect, D("state file after the crash differs from spec", e.stage))
          \cup FailIf(inSave /\ mem # Down /\ e.signed # (res.kind = "new"), D("crash inside saveSigned: the call did not sign as the spec does", res.kind))
     /\ viol' = viol \cup FileViol(e.file, "crash:" \o e.stage)

\* LoadFilePV
StepLoad(e) ==
  /\ mem' = e.mem /\ file' = e.file /\ released' = released /\ unsynced' = 0 /\ poisoned' = poisoned
  /\ drift' = drift
       \cup FailIf(e.mem # e.file, D("LoadFilePV: memory differs from the state file", "load"))
       \cup FailIf(e.file # file, D("state file changed across a restart", "load"))
  /\ viol' = viol \cup FileViol(e.file, "load")

\* ------------------------------------------------------------ pipeline half only
\* a WAL call by the node: Write (one more unsynced record), FlushAndSync / WriteSync (none left)
StepWal(e) ==
  /\ unsynced' = IF e.op = "Write" THEN unsynced + 1 ELSE 0
  /\ UNCHANGED <<mem, file, released, poisoned, viol, drift>>

\* the WAL is opened (node start, or again after repairWalFile)
StepWalOpen(e) ==
  /\ poisoned' = (poisoned \/ (e.head_empty /\ e.files > 0))
  /\ UNCHANGED <<mem, file, released, unsynced, viol, drift>>

\* environment input, internal message, replay marker: no signer state changes
StepNote(e) == UNCHANGED <<mem, file, released, unsynced, poisoned, viol, drift>>

Step ==
  /\ l <= Len(Trace)
  /\ LET e == Trace[l] IN
       CASE e.ev = "Reset"   -> StepReset(e)
         [] e.ev = "Sign"    -> StepSign(e)
         [] e.ev = "CsSign"  -> StepSign(e)
         [] e.ev = "Crash"   -> StepCrash(e)
         [] e.ev = "Load"    -> StepLoad(e)
         [] e.ev = "Wal"     -> StepWal(e)
         [] e.ev = "WalOpen" -> StepWalOpen(e)
         [] OTHER            -> StepNote(e)
  /\ l' = l + 1

Finish ==
  /\ l = Len(Trace) + 1
  /\ WriteVerdict("verdict.json", Len(Trace), viol, drift)
  /\ l' = l + 1
  /\ UNCHANGED <<mem, file, released, unsynced, poisoned, viol, drift>>

Next == Step \/ Finish
=============================================================================
