----------------------------- MODULE TMWalTrace -----------------------------
(* Trace validation for C15: what the REAL consensus WAL did (harness
   /verif/harness/inpkg/consensus/zz_verif_c15_test.go: real BaseWAL / autofile.Group on real
   files, real State.OnStart + catchupReplay + repairWalFile, real WALDecoder), judged
   against TMWalOps.

   Every line with a `post` carries the projection of the real files (items per file obtained
   by aligning the bytes with the journal of records handed to the WAL), of the open Group
   (buffered bytes, minIndex, maxIndex) and the number of head-file bytes known to be on
   stable storage (`fsynced`: from the fsync system calls observed with strace when available,
   otherwise the size at the last successful FlushAndSync).  The line's step is
     level 1  compared with the design step (TMWalOps operator) -> drift, never an alarm
     level 2  the C15 properties are evaluated on the OBSERVED state / reader output -> viol *)
EXTENDS TMWalOps, TraceKit

Trace == LoadTrace("trace.ndjson")

VARIABLES l, w, gh, viol, drift
vars == <<l, w, gh, viol, drift>>

MaxRsy == 6    \* resynchronisation distances tried when matching a desynchronised reader

EmptyGhost ==
  [written |-> << >>, acked |-> {}, pruned |-> {}, excused |-> {}, openId |-> 1, ncorrupt |-> 0,
   lastRead |-> << >>, csH |-> 1, hist |-> << >>, nreopen |-> 0, lastRes |-> "none"]

Init == l = 1 /\ w = EmptyWal(40960, 0, 0) /\ gh = EmptyGhost /\ viol = {} /\ drift = {}

\* ------------------------------------------------------------------ projection -> value
Norm(it) == [id |-> it.id, kind |-> it.kind, h |-> it.h, size |-> it.size, st |-> it.st]
NormItems(s) == [k \in 1..Len(s) |-> Norm(s[k])]
NormRec(r) == [id |-> r.id, kind |-> r.kind, h |-> r.h, size |-> r.size]
NormRecs(s) == [k \in 1..Len(s) |-> NormRec(s[k])]
AnyIds(items) == {items[k].id : k \in 1..Len(items)} \ {0}

RECURSIVE SyncedLen(_, _, _)
SyncedLen(items, k, bytes) ==
  IF k > Len(items) \/ items[k].size > bytes THEN k - 1 ELSE SyncedLen(items, k + 1, bytes - items[k].size)

RECURSIVE TakeLast(_, _)
TakeLast(ws, need) == IF need <= 0 \/ Len(ws) = 0 THEN << >>
                      ELSE Append(TakeLast(SubSeq(ws, 1, Len(ws) - 1), need - ws[Len(ws)].size), ws[Len(ws)])

ObsWal(p, prev, written, openId) ==
  LET head0   == NormItems(p.head)
      hasPart == p.open /\ p.buffered > 0 /\ Len(head0) > 0 /\ head0[Len(head0)].st = "torn"
      head    == IF hasPart THEN SubSeq(head0, 1, Len(head0) - 1) ELSE head0
      ns      == SyncedLen(head, 1, p.fsynced)
      disk    == [k \in 1..Len(p.files) |-> [idx |-> p.files[k].idx, items |-> NormItems(p.files[k].items)]]
      onDisk  == UNION ({AnyIds(disk[k].items) : k \in 1..Len(disk)} \cup {AnyIds(head0)})
      allIt   == Flat([k \in 1..Len(disk) |-> disk[k].items] \o <<head0>>)
      hdrOnly == {allIt[k].id : k \in {j \in 1..Len(allIt) : allIt[j].st = "hdr"}}
                 \ {allIt[k].id : k \in {j \in 1..Len(allIt) : allIt[j].st = "pay"}}
      HdrSizeOf(id) == allIt[CHOOSE k \in 1..Len(allIt) : allIt[k].id = id /\ allIt[k].st = "hdr"].size
  IN [disk |-> disk, hs |-> SubSeq(head, 1, ns), hu |-> SubSeq(head, ns + 1, Len(head)),
      part |-> IF hasPart THEN head0[Len(head0)].size ELSE 0,
      \* records leave the buffer in order: the newest ones, as many as account for the buffered bytes
      \* (of a record whose first group write is in a file and whose second is not, the second is buffered)
      buf  |-> IF p.open
               THEN TakeLast(LET cand == SelectSeq(written, LAMBDA r : r.id >= openId /\ (r.id \notin onDisk \/ r.id \in hdrOnly))
                             IN [k \in 1..Len(cand) |->
                                   IF cand[k].id \in hdrOnly THEN Chunk(cand[k], "pay", cand[k].size - HdrSizeOf(cand[k].id))
                                   ELSE Whole(cand[k])],
                             p.buffered + (IF hasPart THEN head0[Len(head0)].size ELSE 0))
               ELSE << >>,
      gmin |-> IF p.open THEN p.gmin ELSE prev.gmin, gmax |-> IF p.open THEN p.gmax ELSE prev.gmax,
      open |-> p.open, extra |-> p.extra, cap |-> prev.cap, hlim |-> prev.hlim, tlim |-> prev.tlim]

\* what level 1 compares (in-memory indices only while a Group is open)
Comparable(x) == [disk |-> x.disk, hs |-> x.hs, hu |-> x.hu, part |-> x.part, buf |-> x.buf,
                  gmin |-> IF x.open THEN x.gmin ELSE 0, gmax |-> IF x.open THEN x.gmax ELSE 0,
                  open |-> x.open, extra |-> x.extra]
Same(a, b) == Comparable(a) = Comparable(b)
WhatDiffers(a, b) ==
  IF a.disk # b.disk THEN "rotated files" ELSE IF a.hs \o a.hu # b.hs \o b.hu THEN "head file content"
  ELSE IF a.hs # b.hs THEN "synced boundary" ELSE IF a.buf # b.buf \/ a.part # b.part THEN "buffer"
  ELSE IF a.open # b.open THEN "open" ELSE IF a.extra # b.extra THEN "extra files"
  ELSE IF Comparable(a) # Comparable(b) THEN "group indices" ELSE "nothing"

Drift(cond, what) == FailIf(cond, [l |-> l, what |-> what])
Viol(cond, inv, class) == FailIf(cond, [l |-> l, inv |-> inv, class |-> class])

\* ------------------------------------------------------------------ ghost
WrittenIds(g) == {g.written[k].id : k \in 1..Len(g.written)}
SinceOpen(g, ws) == {ws[k].id : k \in {j \in 1..Len(ws) : ws[j].id >= g.openId}}
MustKeep(g) == g.acked \ (g.pruned \cup g.excused)
MustKeepSeq(g) == SelectSeq([k \in 1..Len(g.written) |-> g.written[k].id], LAMBDA x : x \in MustKeep(g))
RecById(g, id) == g.written[CHOOSE k \in 1..Len(g.written) : g.written[k].id = id]

\* ids in the tail of a rotated file that was written and never fsync'ed (observed system calls)
UnsyncedRotated(p) ==
  UNION {LET its == NormItems(p.files[k].items) IN
         AnyIds(SubSeq(its, SyncedLen(its, 1, p.files[k].size - p.files[k].usz) + 1, Len(its))) : k \in 1..Len(p.files)}

\* properties that must hold on every observed state
StateViolP(x, g, ev, p) ==
       Viol(~(MustKeep(g) \subseteq (DurableIds(x) \ UnsyncedRotated(p))), "AckedDurable", ev)
  \cup Viol(~(MustKeep(g) \subseteq OnDiskIds(x)), "PruneWholeOldest", "acked record gone:" \o ev)
StateViol(x, g, ev) ==
       Viol(~(MustKeep(g) \subseteq DurableIds(x)), "AckedDurable", ev)
  \cup Viol(~(MustKeep(g) \subseteq OnDiskIds(x)), "PruneWholeOldest", "acked record gone:" \o ev)

\* ------------------------------------------------------------------ reader output
RECURSIVE Squash(_)     \* runs of errors count as one
Squash(s) == IF Len(s) <= 1 THEN s
             ELSE IF s[1] = 0 /\ s[2] = 0 THEN Squash(Tail(s)) ELSE <<s[1]>> \o Squash(Tail(s))
OutOf(d) == [k \in 1..Len(d) |-> d[k].id]       \* spec outcome list as ints
Recs(s) == SelectSeq(s, LAMBDA x : x # 0)
RECURSIVE StrictInts(_)
StrictInts(s) == IF Len(s) = 0 THEN << >> ELSE IF s[1] = 0 THEN <<0>> ELSE <<s[1]>> \o StrictInts(Tail(s))
RsyRange(x, i) == 0..(IF Len(Stream(x, i)) < MaxRsy THEN Len(Stream(x, i)) ELSE MaxRsy)
StrictlyInc(s) == \A i, j \in 1..Len(s) : i < j => s[i] < s[j]

ReadConforms(x, idx, out) == \E rsy \in RsyRange(x, idx) : Squash(out) = Squash(OutOf(Decode(Stream(x, idx), rsy)))
SoloExpected(items) == LET gp == GoodPrefix(items) IN
                       OutOf(gp) \o (IF Len(gp) < Len(items) THEN <<0>> ELSE << >>)
FileOf(x, idx) == IF idx = -1 THEN HeadView(x) ELSE IF idx \in Idxs(x) THEN DiskFile(x, idx) ELSE << >>
SearchConforms(x, s) ==
  \E rsy \in RsyRange(x, x.gmin) :
     LET r == Search(x, s.h, s.ign, rsy) IN
     r.found = s.found /\ r.err = s.err /\ (s.found => Squash(OutOf(r.rest)) = Squash(s.rest))

\* the height the node works on: the one it was started at, or the one after the last
\* acknowledged #ENDHEIGHT
CurH(g) ==
  LET S == {g.written[k].h + 1 : k \in {j \in 1..Len(g.written) : g.written[j].kind = "eh" /\ g.written[j].id \in g.acked}} IN
  IF S = {} \/ WMax(S) < g.csH THEN g.csH ELSE WMax(S)

\* the first #ENDHEIGHT h ever written
FirstMarkId(g, h) ==
  LET S == {k \in 1..Len(g.written) : g.written[k].kind = "eh" /\ g.written[k].h = h} IN
  IF S = {} THEN 0 ELSE g.written[WMin(S)].id
MarkDemanded(x, g, h) ==
  \E k \in 1..Len(g.written) : g.written[k].kind = "eh" /\ g.written[k].h = h
                               /\ g.written[k].id \in (OnDiskIds(x) \ g.excused)

SearchViol(x, g, s) ==
  LET cls == "h=" \o ToString(s.h) \o (IF s.ign THEN ",ignore" ELSE ",strict") IN
       Viol(s.found /\ ~EHOnDisk(x, s.h), "SearchExact", "found but not on disk:" \o cls)
  \cup Viol(s.ign /\ ~s.found /\ MarkDemanded(x, g, s.h), "SearchExact", "durable marker not found:" \o cls)
  \cup Viol(~s.ign /\ AllClean(x) /\ (s.found # EHOnDisk(x, s.h) \/ s.err # "none"), "SearchExact", "clean log:" \o cls)
  \cup Viol(\E k \in 1..Len(s.rest) : s.rest[k] < 0, "NoInvented", "search reader")
  \* what catch-up would replay now (marker of the height before the one the node works on):
  \* everything acknowledged that was written after the marker
  \cup Viol(s.found /\ s.ign /\ g.ncorrupt = 0 /\ s.h = CurH(g) - 1 /\ FirstMarkId(g, s.h) > 0
            /\ ~WIsSubSeq(SelectSeq(MustKeepSeq(g), LAMBDA y : y > FirstMarkId(g, s.h)), Recs(s.rest)),
            "ReplayRestores", "wal-level: acknowledged records after the marker are not read:" \o cls)

\* ------------------------------------------------------------------ steps
Post(e) == ObsWal(e.post, w, gh.written, gh.openId)

Accept(pred, obs, g, e) ==
  /\ w' = obs
  /\ gh' = g
  /\ drift' = drift \cup Drift(~Same(pred, obs), e.ev \o ": " \o WhatDiffers(pred, obs))
  /\ viol' = viol \cup StateViolP(obs, g, e.ev, e.post)

StepReset(e) ==
  /\ w' = EmptyWal(e.cap, e.headLimit, e.totalLimit)
  /\ gh' = EmptyGhost
  /\ UNCHANGED <<viol, drift>>

(* wal.Write / wal.WriteSync.  e.nw = how many Group.Write calls the encoder made for the record,
   e.gw their sizes, e.rot = k > 0: the harness ran the real checkHeadSizeLimit right after the
   k-th of them (what the group's ticker goroutine may do at that point).  The design spec has
   nw = 1; anything else is reported as drift and followed with the chunk semantics of TMWalOps. *)
StepWrite(e, sync) ==
  LET r   == NormRec(e.rec)
      ws  == Append(gh.written, r)
      cs  == IF e.nw <= 1 THEN <<Whole(r)>> ELSE <<Chunk(r, "hdr", e.gw[1]), Chunk(r, "pay", r.size - e.gw[1])>>
      w1  == WriteRec(w, cs[1])
      w2  == IF e.rot = 1 THEN CheckHead(w1) ELSE w1
      w3  == IF Len(cs) = 2 THEN WriteRec(w2, cs[2]) ELSE w2
      w4  == IF e.rot >= 2 THEN CheckHead(w3) ELSE w3
      ok  == e.err = "none"
      g   == [gh EXCEPT !.written = ws, !.acked = IF sync /\ ok THEN gh.acked \cup SinceOpen(gh, ws) ELSE gh.acked]
      obs == ObsWal(e.post, w, ws, gh.openId)
      pred == IF sync THEN FlushSync(w4) ELSE w4
  IN /\ w' = obs
     /\ gh' = g
     /\ drift' = drift \cup Drift(~Same(pred, obs), e.ev \o ": " \o WhatDiffers(pred, obs))
                      \cup Drift(e.nw # 1, e.ev \o ": record written in " \o ToString(e.nw) \o " group writes")
     /\ viol' = viol \cup StateViolP(obs, g, e.ev, e.post)

StepFlush(e) ==
  LET g == [gh EXCEPT !.acked = IF e.err = "none" THEN gh.acked \cup SinceOpen(gh, gh.written) ELSE gh.acked]
  IN Accept(FlushSync(w), Post(e), g, e)

StepFlushHalf(e) ==
  Accept(FlushOnly(w), Post(e), gh, e)

StepCheckHead(e) == Accept(CheckHead(w), Post(e), gh, e)

StepCheckTotal(e) ==
  LET obs    == Post(e)
      before == [k \in 1..Len(w.disk) |-> w.disk[k].idx]
      gone   == SelectSeq(before, LAMBDA i : i \notin Idxs(obs))
      goneIds == UNION {AnyIds(DiskFile(w, gone[k])) : k \in 1..Len(gone)}
      g      == [gh EXCEPT !.pruned = gh.pruned \cup goneIds]
      kept   == SelectSeq(w.disk, LAMBDA f : f.idx \in Idxs(obs))
  IN /\ w' = obs /\ gh' = g
     /\ drift' = drift \cup Drift(~Same([w EXCEPT !.disk = CheckTotal(w).disk], obs), "CheckTotal: " \o
                                   WhatDiffers([w EXCEPT !.disk = CheckTotal(w).disk], obs))
     /\ viol' = viol \cup StateViol(obs, g, e.ev)
          \cup Viol(~WIsPrefix(gone, before), "PruneWholeOldest", "removed files are not the oldest")
          \cup Viol(obs.disk # kept \/ HeadView(obs) # HeadView(w), "PruneWholeOldest", "a remaining file changed")

StepCrash(e) ==
  \* what survives is on the disk by construction
  LET obs0 == ObsWal(e.post, w, gh.written, gh.openId)
      obs  == [obs0 EXCEPT !.hs = obs0.hs \o obs0.hu, !.hu = << >>]
      jj   == IF e.j > Len(w.hu) THEN Len(w.hu) ELSE e.j
  IN Accept(CrashAt(w, jj, e.tk), obs, gh, e)

StepCorrupt(e) ==
  LET file == FileOf(w, e.file)
      g    == [gh EXCEPT !.excused = gh.excused \cup AnyIds(SubSeq(file, e.pos, Len(file))), !.ncorrupt = gh.ncorrupt + 1]
      pred == IF e.file = -1 THEN DamageHead(w, e.pos, e.cls)
              ELSE DamageDisk(w, CHOOSE k \in 1..Len(w.disk) : w.disk[k].idx = e.file, e.pos, e.cls)
      obs0 == Post(e)
      obs  == [obs0 EXCEPT !.hs = obs0.hs \o obs0.hu, !.hu = << >>]
  IN /\ w' = obs /\ gh' = g
     /\ drift' = drift \cup Drift(~Same(pred, obs), "Corrupt: " \o WhatDiffers(pred, obs))
     /\ viol' = viol          \* a damaged byte is the environment's doing

StepStop(e) ==
  LET g == [gh EXCEPT !.acked = gh.acked \cup SinceOpen(gh, gh.written)] IN
  Accept(StopWal(w), Post(e), g, e)

\* records the start-up itself wrote: EndHeightMessage{0} of OnStart, then what the replay echoed
RECURSIVE WriteAll(_, _)
WriteAll(x, rs) == IF Len(rs) = 0 THEN x ELSE WriteAll(WriteRec(x, Whole(rs[1])), Tail(rs))
Dummy(id) == [id |-> id, kind |-> "eh", h |-> 0, size |-> 1]

ReopenPred(e, rsy) ==
  LET new  == NormRecs(e.wrote)
      nid  == IF Len(gh.written) = 0 THEN 1 ELSE gh.written[Len(gh.written)].id + 1
      a    == IF Len(new) >= 1 THEN new[1] ELSE Dummy(nid)
      b    == IF Len(new) >= 2 THEN new[2] ELSE Dummy(nid + 1)
      r    == StartUp(w, e.csH, rsy, a, b)
      echo == SubSeq(new, r.neh0 + 1, Len(new))
      \* the node is stopped again (flush + fsync + close) and the harness re-opens the WAL
      x    == FlushSync(WriteAll(r.w, echo))
      gi   == GInfo(x)
  IN [w |-> IF r.res = "fail" THEN r.w ELSE [x EXCEPT !.gmin = gi.min, !.gmax = gi.max], res |-> r.res]

\* the round state the node must be back in: the one it had after the last input that survived
Expected(g, x) ==
  LET S == {k \in 1..Len(g.hist) : g.hist[k].id = 0 \/ g.hist[k].id \in OnDiskIds(x)} IN
  g.hist[WMax(S)].rs
RsDiff(a, b) ==
  IF a.height # b.height THEN "height" ELSE IF a.round # b.round THEN "round" ELSE IF a.step # b.step THEN "step"
  ELSE IF a.lockedRound # b.lockedRound \/ a.lockedBlock # b.lockedBlock THEN "lock"
  ELSE IF a.validRound # b.validRound \/ a.validBlock # b.validBlock THEN "valid"
  ELSE IF a.votes # b.votes \/ a.lastCommit # b.lastCommit THEN "votes"
  ELSE IF a.proposal # b.proposal \/ a.proposalBlock # b.proposalBlock \/ a.parts # b.parts THEN "proposal" ELSE "other"

StepReopen(e) ==
  LET new  == NormRecs(e.wrote)
      ws   == gh.written \o new
      oid  == IF Len(new) > 0 THEN new[1].id ELSE IF Len(gh.written) = 0 THEN 1 ELSE gh.written[Len(gh.written)].id + 1
      g0   == [gh EXCEPT !.written = ws, !.openId = oid, !.csH = e.csH, !.nreopen = gh.nreopen + 1, !.lastRes = e.res,
                         !.acked = gh.acked \cup {new[k].id : k \in 1..Len(new)}]
      g    == IF e.node /\ Len(gh.hist) = 0 THEN [g0 EXCEPT !.hist = <<[id |-> 0, rs |-> e.rs]>>] ELSE g0
      obs  == ObsWal(e.post, w, ws, oid)
      ok   == \E rsy \in 0..2 : LET p == ReopenPred(e, rsy) IN Same(p.w, obs) /\ p.res = e.res
      p0   == ReopenPred(e, 0)
      started == e.res \in {"ok", "nomarker", "hasend"}
  IN /\ w' = obs /\ gh' = g
     /\ drift' = drift \cup Drift(~ok, "Reopen: res " \o p0.res \o "/" \o e.res \o ", " \o WhatDiffers(p0.w, obs))
     /\ viol' = viol \cup StateViol(obs, g, e.ev)
          \* when OnStart returned (before the harness stopped the node again): a head file that
          \* was rewritten must be on stable storage before anything is acknowledged behind it
          \cup Viol(LET head == NormItems(e.post.head)
                        durable == AnyIds(SubSeq(head, 1, SyncedLen(head, 1, e.startsynced)))
                    IN \E id \in MustKeep(gh) : id \in AnyIds(head) /\ id \notin durable,
                    "AckedDurable", "Reopen: head file rewritten without fsync")
          \cup (IF e.node /\ Len(gh.hist) > 0 /\ started
                THEN Viol(e.rs # Expected(gh, w), "ReplayRestores", "node:" \o RsDiff(e.rs, Expected(gh, w)))
                ELSE {})

StepNodeState(e) ==
  /\ gh' = IF e.input > 0 THEN [gh EXCEPT !.hist = Append(gh.hist, [id |-> e.input, rs |-> e.rs])] ELSE gh
  /\ UNCHANGED <<w, viol, drift>>

StepSearch(e) ==
  LET obs == Post(e)
      s   == [h |-> e.h, ign |-> e.ign, found |-> e.found, err |-> e.err, rest |-> e.rest]
      rv  == w
      ok  == \E rsy \in RsyRange(w, w.gmin) : LET r == Search(w, e.h, e.ign, rsy) IN
               r.found = e.found /\ r.err = e.err /\ Same(Touch(w, r.low), obs)
  IN /\ w' = obs /\ gh' = gh
     /\ drift' = drift \cup Drift(~ok, "Search differs from spec")
     /\ viol' = viol \cup StateViol(obs, gh, e.ev) \cup SearchViol(obs, gh, s)

StepObserve(e) ==
  LET obs    == Post(e)
      lowIdx == IF Len(e.reads) = 0 THEN -1 ELSE e.reads[1].idx
      whole  == IF Len(e.reads) = 0 THEN << >> ELSE e.reads[1].out      \* the reader opened at minIndex
      strict == StrictInts(whole)
      mk     == MustKeepSeq(gh)
      g      == [gh EXCEPT !.lastRead = Recs(strict)]
      soloOf(id) == \E k \in 1..Len(e.solo) : \E j \in 1..Len(e.solo[k].out) : e.solo[k].out[j] = id
  IN /\ w' = obs /\ gh' = g
     /\ drift' = drift
          \cup Drift(\E k \in 1..Len(e.reads) : ~ReadConforms(obs, e.reads[k].idx, e.reads[k].out), "Observe: group reader output differs from spec")
          \cup Drift(\E k \in 1..Len(e.solo) : e.solo[k].out # SoloExpected(FileOf(obs, e.solo[k].idx)), "Observe: file reader output differs from spec")
          \cup Drift(\E k \in 1..Len(e.search) : ~SearchConforms(obs, e.search[k]), "Observe: search result differs from spec")
          \cup Drift(~Same(Touch(w, IF lowIdx < 0 THEN w.gmax ELSE lowIdx), obs), "Observe: files changed: " \o WhatDiffers(Touch(w, IF lowIdx < 0 THEN w.gmax ELSE lowIdx), obs))
     /\ viol' = viol \cup StateViol(obs, gh, e.ev)
          \* every acknowledged, retained record is returned by the reader of the whole log, in order
          \cup Viol(gh.ncorrupt = 0 /\ ~WIsSubSeq(mk, Recs(strict)), "AckedReadable",
                    IF gh.nreopen >= 2 THEN "group reader, after restart " \o ToString(gh.nreopen) ELSE "group reader")
          \* ... and by the reader of its own file, whatever was damaged elsewhere
          \cup Viol(\E k \in 1..Len(mk) : ~soloOf(mk[k]), "AckedReadable", "file reader")
          \cup Viol(\E k \in 1..Len(e.reads) : (\E j \in 1..Len(e.reads[k].out) : e.reads[k].out[j] < 0)
                                               \/ ~StrictlyInc(Recs(e.reads[k].out)), "NoInvented", "group reader")
          \cup Viol(\E k \in 1..Len(e.solo) : (\E j \in 1..Len(e.solo[k].out) : e.solo[k].out[j] < 0)
                                               \/ ~StrictlyInc(Recs(e.solo[k].out)), "NoInvented", "file reader")
          \cup Viol(gh.ncorrupt = 0 /\ ~WIsSubSeq(SelectSeq(gh.lastRead, LAMBDA y : y \in MustKeep(gh)), Recs(strict)),
                    "SecondRestartSame", "records read before are not read any more")
          \cup UNION {SearchViol(obs, gh, e.search[k]) : k \in 1..Len(e.search)}

Step ==
  /\ l <= Len(Trace)
  /\ LET e == Trace[l] IN
       CASE e.ev = "Reset"        -> StepReset(e)
         [] e.ev = "Reopen"       -> StepReopen(e)
         [] e.ev = "Write"        -> StepWrite(e, FALSE)
         [] e.ev = "WriteSync"    -> StepWrite(e, TRUE)
         [] e.ev = "FlushAndSync" -> StepFlush(e)
         [] e.ev = "FlushHalf"    -> StepFlushHalf(e)
         [] e.ev = "CheckHead"    -> StepCheckHead(e)
         [] e.ev = "CheckTotal"   -> StepCheckTotal(e)
         [] e.ev = "Crash"        -> StepCrash(e)
         [] e.ev = "Corrupt"      -> StepCorrupt(e)
         [] e.ev = "Stop"         -> StepStop(e)
         [] e.ev = "Search"       -> StepSearch(e)
         [] e.ev = "Observe"      -> StepObserve(e)
         [] e.ev = "NodeState"    -> StepNodeState(e)
  /\ l' = l + 1

Finish ==
  /\ l = Len(Trace) + 1
  /\ WriteVerdict("verdict.json", Len(Trace), viol, drift)
  /\ l' = l + 1
  /\ UNCHANGED <<w, gh, viol, drift>>

Next == Step \/ Finish
=============================================================================
