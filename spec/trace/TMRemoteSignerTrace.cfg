CONSTANTS
  Weak_ErrorIgnored = FALSE
  Weak_NoChainCheck = FALSE
  Weak_RetryOnRemoteError = FALSE
  Weak_RetrySwallowsError = FALSE
  Weak_PingSwallowsError = FALSE
  Weak_ReleaseBeforeSave = FALSE
  Weak_CheckHRSIgnoresStep = FALSE
  Weak_SameHRSResigns = FALSE
  Weak_TimestampOnlyComparesNothing = FALSE
  Weak_LoadResetsState = FALSE
  Weak_NoFlushBeforeSign = FALSE
INIT Init
NEXT Next
CHECK_DEADLOCK FALSE
