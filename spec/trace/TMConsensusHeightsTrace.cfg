CONSTANTS
  Universe <- TraceU5
  Me = "v0"
  MaxRound = 2
  InvalidValues = {"ZX", "ZC"}
  Weak = {}
INIT Init
NEXT Next
CHECK_DEADLOCK FALSE
