---------------------------- MODULE TMLightTrace ----------------------------
(* Trace validation for C09: what the REAL light client (light.NewClient,
   Client.VerifyLightBlockAtHeight, the light.Verify functions) did, judged against TMLight.

   Events (harness/inpkg/light/zz_verif_c09_test.go):
     Case       one call of light.Verify / VerifyAdjacent / VerifyNonAdjacent /
                VerifyBackwards on two blocks, with the blocks' facts
     Reset      a new client life: the facts of every block the providers can serve
                (derived from the real signed objects), the providers' answer tables,
                settings, provider roles, trust root
     NewClient  light.NewClient: result class, requests/answers, store and roles after
     Update     Client.Update(now), same fields as Verify
     Verify     VerifyLightBlockAtHeight(h, now): result class, every request with the
                answer the provider returned (in arrival order, tagged with the phase),
                evidence reported, store and roles after

   level 1 (drift): is there a reply schedule under which the specification's client, given
            the same tables, makes the same requests, returns the same class, reports the
            same evidence and ends with the same store and roles
   level 2 (viol):  the C09 properties evaluated on the OBSERVED answers, store and result
            (StoreSound, WitnessConfirmed, NoConfirmationFromSilence, AttackReported,
            TrustRootOnly, VerifierSound) -- independent of level 1, except that
            AttackReported needs the primary's verification trace, which is taken from the
            specification's run whose primary-phase requests equal the observed ones.  *)
EXTENDS TMLight, TraceKit

Trace == LoadTrace("trace.ndjson")

VARIABLES l, sc, cl, cnt, root, viol, drift
vars == <<l, sc, cl, cnt, root, viol, drift>>

NoSc == [blocks |-> [x \in {} |-> 0], prov |-> [x \in {} |-> 0],
         cfg |-> [period |-> 0, drift |-> 0, num |-> 1, den |-> 3, mode |-> "skip", rollback |-> FALSE]]
\* level 1 accepts the shipped findNewPrimary and the repaired one (see TMLight!FNPLoop)
Sc(v) == [sc EXCEPT !.cfg.rollback = v]
NoCl == [store |-> {}, latest |-> Nil, primary |-> Nil, wits |-> << >>]

Init == /\ l = 1 /\ sc = NoSc /\ cl = NoCl /\ cnt = << >> /\ root = [h |-> 0, hid |-> Nil]
        /\ viol = {} /\ drift = {}

Viol(inv, class) == [l |-> l, inv |-> inv, class |-> class]
Drift(what, spec) == [l |-> l, what |-> what, spec |-> spec]

\* ------------------------------------------------------------ verifier cases
\* the first condition of the statement that the accepted step does not meet
FailingClause(tb, nb, now, cfg) ==
  IF ~nb.wf THEN "malformed"
  ELSE IF ~(nb.h > tb.h) THEN "height"
  ELSE IF ~(nb.t > tb.t) THEN "time_not_later"
  ELSE IF ~(nb.t < now + cfg.drift) THEN "from_the_future"
  ELSE IF nb.vh # nb.vsh \/ Len(nb.sigs) # Len(nb.vals) THEN "not_its_own_validator_set"
  ELSE IF ~(3 * OwnSigned(nb) > 2 * SumP(nb.vals)) THEN "own_two_thirds"
  ELSE IF nb.h = tb.h + 1 /\ nb.vh # tb.nvh THEN "adjacent_next_validators"
  ELSE IF nb.h # tb.h + 1 /\ ~(cfg.den * SignedOf(tb.vals, nb.sigs) >= cfg.num * SumP(tb.vals)) THEN "trust_level"
  ELSE IF ~(tb.t + cfg.period > now) THEN "trusting_period"
  ELSE "none"

StepCase(e) ==
  LET tb == e.tb
      nb == e.nb
      vs == ValidStep(tb, nb, e.now, e.cfg)
      cls == FailingClause(tb, nb, e.now, e.cfg) IN
  /\ drift' = drift
       \cup FailIf(Verify(tb, nb, e.now, e.cfg) # e.verify, Drift("light.Verify class differs", Verify(tb, nb, e.now, e.cfg)))
       \cup FailIf(VerifyAdjacent(tb, nb, e.now, e.cfg) # e.adj, Drift("light.VerifyAdjacent class differs", VerifyAdjacent(tb, nb, e.now, e.cfg)))
       \cup FailIf(VerifyNonAdjacent(tb, nb, e.now, e.cfg) # e.nonadj, Drift("light.VerifyNonAdjacent class differs", VerifyNonAdjacent(tb, nb, e.now, e.cfg)))
       \cup FailIf(VerifyBackwards(nb, tb) # e.back, Drift("light.VerifyBackwards differs", IF VerifyBackwards(nb, tb) THEN "ok" ELSE "rejected"))
  /\ viol' = viol
       \cup FailIf(e.verify = "ok" /\ ~vs, Viol("VerifierSound", "Verify:" \o cls))
       \cup FailIf(e.adj = "ok" /\ ~vs, Viol("VerifierSound", "VerifyAdjacent:" \o cls))
       \cup FailIf(e.nonadj = "ok" /\ ~vs, Viol("VerifierSound", "VerifyNonAdjacent:" \o cls))
       \cup FailIf(e.back /\ ~BackStep(tb, nb), Viol("VerifierSound", "VerifyBackwards"))
  /\ UNCHANGED <<sc, cl, cnt, root>>

\* ------------------------------------------------------------ client runs
StepReset(e) ==
  /\ sc' = [blocks |-> e.blocks, prov |-> e.prov,
            cfg |-> [period |-> e.cfg.period, drift |-> e.cfg.drift, num |-> e.cfg.num, den |-> e.cfg.den,
                     mode |-> e.cfg.mode, rollback |-> FALSE]]
  /\ cl' = [store |-> {}, latest |-> Nil, primary |-> e.primary, wits |-> e.wits]
  /\ cnt' = [n \in DOMAIN e.prov |-> [i \in 1..Len(e.prov[n]) |-> 0]]
  /\ root' = e.root
  /\ UNCHANGED <<viol, drift>>

RECURSIVE PermSeqs(_)
PermSeqs(S) == IF S = {} THEN {<< >>} ELSE UNION {{<<a>> \o p : p \in PermSeqs(S \ {a})} : a \in S}
\* orders over ALL provider names: the primary of the moment can be a witness by the next fan-out
Orders == PermSeqs(DOMAIN sc.prov)
\* the order the driver tried to force; else one order for all fan-outs of the call; else one
\* per fan-out (three only while that stays small)
Scheds1 == {<<p>> : p \in Orders}
Scheds2 == {<<p, q>> : p \in Orders, q \in Orders}
           \cup (IF Cardinality(Orders) <= 6 THEN {<<p, q, r>> : p \in Orders, q \in Orders, r \in Orders} ELSE {})

Known(ids) == {b \in ids : b \in DOMAIN sc.blocks}
HidsOf(ids) == {sc.blocks[b].hid : b \in Known(ids)}
MaxStored(ids) == IF ids = {} THEN Nil
                  ELSE CHOOSE b \in ids : \A c \in ids : sc.blocks[c].h <= sc.blocks[b].h

\* answers that reached the client before the call returned
Returned(obs) == SelectSeq(obs, LAMBDA o : o.r \notin {"Pending", "Canceled"})
Wild(r) == r \in {"Pending", "Canceled"}
PerProv(s, p) == SelectSeq(s, LAMBDA o : o.p = p)
\* predicted request sequence a against observed b of one provider
\* (a goroutine that was cut off -- cancelled context, or still sleeping in the lagging-witness
\* branch when the call returned -- shows fewer requests than the specification predicts)
SeqAgree(a, b) ==
  /\ \A i \in 1..Min2(Len(a), Len(b)) : a[i].h = b[i].h /\ (Wild(b[i].r) \/ a[i].r = b[i].r)
  /\ \/ Len(a) = Len(b)
     \/ /\ Len(b) < Len(a) /\ Len(b) > 0
        /\ (Wild(b[Len(b)].r) \/ a[Len(b) + 1].h = 0)
ReqAgree(pred, obs) == \A p \in DOMAIN sc.prov : SeqAgree(PerProv(pred, p), PerProv(obs, p))
PriOnly(s) == SelectSeq(s, LAMBDA o : o.ph = "pri")
EvSet(ev) == {[to |-> ev[i].to, conf |-> ev[i].conf, common |-> ev[i].common] : i \in DOMAIN ev}

Matches(r, e) ==
  /\ r.res = e.res
  /\ r.x.cl.store = Range(e.post.store)
  /\ r.x.cl.primary = e.post.primary
  /\ r.x.cl.wits = e.post.wits
  /\ ReqAgree(r.x.reqs, e.obs)
  /\ EvSet(r.x.ev) = EvSet(e.evid)

\* request counters advance by what was OBSERVED
RECURSIVE Count(_, _, _)
Count(c, obs, i) ==
  IF i > Len(obs) THEN c
  ELSE LET o == obs[i] IN
       Count(IF o.p \in DOMAIN c /\ o.h + 1 \in DOMAIN c[o.p] THEN [c EXCEPT ![o.p][o.h + 1] = @ + 1] ELSE c, obs, i + 1)

Install(e) ==
  LET ids == Known(Range(e.post.store)) IN
  /\ cl' = [store |-> ids, latest |-> MaxStored(ids), primary |-> e.post.primary, wits |-> e.post.wits]
  /\ cnt' = Count(cnt, e.obs, 1)

StepNewClient(e) ==
  LET predv(s, v) == InitClient(Sc(v), cl.primary, cl.wits, cnt, root.h, root.hid, s)
      pred(s) == predv(s, FALSE)
      ok == \/ Matches(pred(<<e.sched>>), e) \/ Matches(predv(<<e.sched>>, TRUE), e)
            \/ \E s \in Scheds1 : Matches(pred(s), e) \/ Matches(predv(s, TRUE), e)
            \/ \E s \in Scheds2 : Matches(pred(s), e) \/ Matches(predv(s, TRUE), e)
      ids == Range(e.post.store) IN
  /\ drift' = drift \cup FailIf(~ok, Drift("NewClient: no reply schedule of the specification reproduces the observed call",
                                           pred(<<e.sched>>).res))
  /\ viol' = viol
       \cup FailIf(\E b \in ids : b \notin DOMAIN sc.blocks, Viol("TrustRootOnly", "unknown_block_stored"))
       \cup FailIf(\E b \in Known(ids) : sc.blocks[b].hid # root.hid, Viol("TrustRootOnly", "other_header_stored"))
  /\ Install(e)
  /\ UNCHANGED <<sc, root>>

\* class of a soundness failure: how the header got in
StoredHow(pre, hd) ==
  LET bs == Variants(sc, DOMAIN sc.blocks, {hd})
      hh == (CHOOSE b \in bs : TRUE) IN
  IF sc.blocks[hh].h < MinH(sc, pre) THEN "backwards" ELSE sc.cfg.mode

StepVerify(e) ==
  LET predv(s, v) == IF e.ev = "Update" THEN UpdateCall(Sc(v), cl, cnt, e.now, s)
                     ELSE VerifyAtHeight(Sc(v), cl, cnt, e.h, e.now, s)
      pred(s) == predv(s, FALSE)
      ok   == \/ Matches(pred(<<e.sched>>), e) \/ Matches(predv(<<e.sched>>, TRUE), e)
              \/ \E s \in Scheds1 : Matches(pred(s), e) \/ Matches(predv(s, TRUE), e)
              \/ \E s \in Scheds2 : Matches(pred(s), e) \/ Matches(predv(s, TRUE), e)
      pre  == HidsOf(cl.store)
      ids  == Range(e.post.store)
      post == HidsOf(ids)
      obs  == Returned(e.obs)
      uns  == Unsound(sc, pre, post, obs, e.now)
      unc  == Unconfirmed(sc, pre, post, obs, e.post.primary)
      sil  == SilentKinds(sc, obs, e.post.primary)
      \* the specification's runs whose primary phase is the observed one: same requests and
      \* answers before the cross-check, same primary at the end, cross-check reached or not
      hasDet == \E i \in DOMAIN e.obs : e.obs[i].ph = "det"
      Same(s, v) == /\ ReqAgree(PriOnly(predv(s, v).x.reqs), PriOnly(e.obs))
                    /\ predv(s, v).x.cl.primary = e.post.primary
                    /\ (predv(s, v).x.tr # << >>) = hasDet
      P0   == {sv \in {<<e.sched>>} \X BOOLEAN : Same(sv[1], sv[2])}
      P1   == IF P0 # {} THEN P0 ELSE {sv \in Scheds1 \X BOOLEAN : Same(sv[1], sv[2])}
      P    == IF P1 # {} THEN P1 ELSE {sv \in Scheds2 \X BOOLEAN : Same(sv[1], sv[2])}
      att  == IF hasDet THEN UNION {predv(sv[1], sv[2]).x.att : sv \in P} ELSE {}
      self == SelfConfirmed(sc, pre, post, obs, e.post.primary)
      tos  == {e.evid[i].to : i \in DOMAIN e.evid} IN
  /\ drift' = drift \cup FailIf(~ok, Drift(e.ev \o ": no reply schedule of the specification reproduces the observed call",
                                           pred(<<e.sched>>).res))
  /\ viol' = viol
       \cup FailIf(\E b \in ids : b \notin DOMAIN sc.blocks, Viol("StoreSound", "unknown_block_stored"))
       \cup FailIf(uns # {}, Viol("StoreSound", IF uns = {} THEN "-" ELSE StoredHow(pre, CHOOSE hd \in uns : TRUE)))
       \cup FailIf(unc # {}, Viol("WitnessConfirmed", IF \E i \in DOMAIN obs : obs[i].ph = "det" THEN "cross_check_ran" ELSE "no_cross_check"))
       \cup FailIf(self # {}, Viol("WitnessConfirmed", "only_confirmed_by_the_primary_itself"))
       \cup FailIf(unc # {} /\ sil # {}, Viol("NoConfirmationFromSilence", "silent_witness"))
       \cup FailIf(unc # {} /\ \E i \in DetResponses(obs, e.post.primary) : IsBlk(sc, obs[i].r),
                   Viol("NoConfirmationFromSilence", "different_header"))
       \cup FailIf(~AttackHandled(att, e.res, tos),
                   Viol("AttackReported", IF e.res = "Attack" THEN "evidence_missing" ELSE "result:" \o e.res))
       \cup FailIf(e.res # "nil" /\ post # pre, Viol("StoreSound", "stored_despite_error"))
       \cup FailIf(~(pre \subseteq post), Viol("StoreMonotone", "trusted_header_lost"))
  /\ Install(e)
  /\ UNCHANGED <<sc, root>>

Step ==
  /\ l <= Len(Trace)
  /\ LET e == Trace[l] IN
       CASE e.ev = "Case"      -> StepCase(e)
         [] e.ev = "Reset"     -> StepReset(e)
         [] e.ev = "NewClient" -> StepNewClient(e)
         [] e.ev = "Verify"    -> StepVerify(e)
         [] e.ev = "Update"    -> StepVerify(e)
  /\ l' = l + 1

Finish ==
  /\ l = Len(Trace) + 1
  /\ WriteVerdict("verdict.json", Len(Trace), viol, drift)
  /\ l' = l + 1
  /\ UNCHANGED <<sc, cl, cnt, root, viol, drift>>

Next == Step \/ Finish
=============================================================================
