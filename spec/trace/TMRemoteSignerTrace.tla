------------------------- MODULE TMRemoteSignerTrace -------------------------
(* Trace validation for PRIVVAL: what the REAL remote-signer stack (RetrySignerClient ->
   SignerClient -> SignerListenerEndpoint | harness network | SignerDialerEndpoint ->
   SignerServer -> FilePV; harness/inpkg/privval/zz_verif_privval_test.go) was observed to do,
   judged with the operators of TMRemoteSignerOps.

   Events (one per line, in the order of sequence numbers given under one lock):
     Reset{run, chain, retries}      CallStart{t, q, api}      Return{t, q, api, res, rerr, out}
     NBlocking{t}                    ensureConnection has no connection and waits for one
     NWriteBegin{c, t, q}            the node endpoint hands a request to connection c
     NWrite/NRead{c, t, res, id, q, m}   one WriteMessage / ReadMessage of the node endpoint on
                                     connection c by goroutine t (c1 caller, pg pingLoop); id is the
                                     harness' number of the request (for a response: of the request
                                     it was produced for)
     SRead/SWrite{c, res, id, q, m}  the same for the signer's endpoint;  SHandle{q, honest, m, lss}
     NClose/SClose{c}  SDial{c, res}  Accept{c, res}  Cut{c}  PingTick  Obs{nconn, sconn, lss, ...}

   Level 2 (viol): the properties of TMRemoteSigner on the observed values
       ReturnOK (P1, P2)  NoConflict (P3)  RetryStops, RetryExhausts  NoDeadConnReuse (P4)
       ChainChecked (P5)  OneOutstanding (P6)
   Level 1 (drift): the handler's answer and the FilePV state are not HandleReq's; the call's
       result is not Interpret's; the endpoints' connections are not the ones the events imply. *)
EXTENDS TMRemoteSignerOps, TraceKit

Trace == LoadTrace("trace.ndjson")

VARIABLES l, g, viol, drift
vars == <<l, g, viol, drift>>

Th0 == [att |-> 0, phase |-> "fresh", lastId |-> 0, tr |-> "none", m |-> NoResp, own |-> FALSE, sawRemote |-> FALSE]
C0  == [out |-> 0, lastq |-> "none", nerr |-> "none", serr |-> "none", lastN |-> "none"]
G0 == [chain |-> "c", retries |-> 1, lss |-> EmptyLSS, signed |-> {}, conns |-> << >>, nconn |-> 0, sconn |-> 0, acc |-> 0,
       th |-> [t \in {"c1", "pg", "other"} |-> Th0], q |-> NoQ, api |-> "none", active |-> FALSE, slack |-> 0,
       hostile |-> FALSE, ended |-> FALSE]

Init == l = 1 /\ g = G0 /\ viol = {} /\ drift = {}

V(inv, class) == [l |-> l, inv |-> inv, class |-> class]
D(what, spec) == [l |-> l, what |-> what, spec |-> spec]
Known(c) == c >= 1 /\ c <= Len(g.conns)
Thr(t) == IF t \in {"c1", "pg"} THEN t ELSE "other"

StepReset(e) ==
  /\ g' = [G0 EXCEPT !.chain = e.chain, !.retries = e.retries]
  /\ UNCHANGED <<viol, drift>>

StepCallStart(e) ==
  /\ g' = [g EXCEPT !.th["c1"] = Th0, !.q = e.q, !.api = e.api, !.active = TRUE, !.slack = 0]
  /\ UNCHANGED <<viol, drift>>

StepNBlocking(e) ==
  LET t == Thr(e.t) IN
  /\ g' = [g EXCEPT !.th[t] = [@ EXCEPT !.att = @ + 1, !.phase = "blocking", !.tr = "conn_timeout", !.m = NoResp, !.own = FALSE, !.lastId = 0]]
  /\ UNCHANGED <<viol, drift>>

StepSDial(e) ==
  /\ g' = IF e.res = "ok" THEN [g EXCEPT !.conns = Append(@, C0), !.sconn = e.c] ELSE g
  /\ drift' = drift \cup FailIf(e.res = "ok" /\ e.c # Len(g.conns) + 1, D("connection ids are not consecutive", "none"))
  /\ viol' = viol

StepAccept(e) ==
  /\ g' = IF e.res = "ok" THEN [g EXCEPT !.acc = e.c] ELSE g
  /\ UNCHANGED <<viol, drift>>

StepCut(e) == g' = g /\ UNCHANGED <<viol, drift>>

StepNWrite(e) ==
  LET t  == Thr(e.t)
      me == g.th[t]
      c  == e.c
      ok == e.res = "ok"
      \* attempts are counted from above: an NWrite after an NBlocking is the same attempt (the connection arrived) or
      \* the next one (the wait timed out, which leaves no event) - it is counted as a new one
      att2 == me.att + 1
      trr == CASE e.res = "timeout" -> "write_timeout" [] e.res = "err" -> "write_err" [] OTHER -> e.res
      cs == IF Known(c) THEN g.conns[c] ELSE C0
  IN
  /\ g' = [g EXCEPT !.th[t] = [me EXCEPT !.att = att2, !.phase = IF ok THEN "written" ELSE "fresh", !.lastId = IF ok THEN e.id ELSE 0,
                                         !.tr = IF ok THEN "pending" ELSE trr, !.m = NoResp, !.own = FALSE],
                    !.nconn = c, !.acc = IF g.acc = c THEN 0 ELSE g.acc,
                    !.conns = IF Known(c) THEN [@ EXCEPT ![c] = [@ EXCEPT !.out = IF ok THEN @ + 1 ELSE IF e.res \in {"err", "closed"} THEN 0 ELSE @, !.lastq = IF ok THEN e.q.k ELSE @,
                                                                         !.nerr = IF ok THEN @ ELSE e.res,
                                                                         !.lastN = IF e.res = "timeout" /\ t = "c1" THEN "c1timeout" ELSE "other"]] ELSE @]
  /\ viol' = viol
       \cup FailIf(ok /\ cs.out > 0 /\ ~g.hostile, V("OneOutstanding", e.q.k \o "_written_while_" \o cs.lastq \o "_request_is_outstanding"))
  /\ drift' = drift \cup FailIf(~Known(c), D("write on an unknown connection", "none"))

\* the node endpoint hands a request to the connection (the write itself may still be held back by the network)
StepNWriteBegin(e) ==
  /\ g' = g
  /\ viol' = viol \cup FailIf(Thr(e.t) = "c1" /\ g.active /\ g.th["c1"].sawRemote,
                              V("RetryStops", g.q.k \o ":request_sent_after_remote_signer_error"))
                  \cup FailIf(Known(e.c) /\ g.conns[e.c].out > 0 /\ ~g.hostile,
                              V("OneOutstanding", e.q.k \o "_written_while_" \o g.conns[e.c].lastq \o "_request_is_outstanding"))
  /\ drift' = drift

StepNRead(e) ==
  LET t  == Thr(e.t)
      me == g.th[t]
      c  == e.c
      ok == e.res = "ok"
      trr == CASE e.res = "timeout" -> "read_timeout" [] OTHER -> e.res
      own == ok /\ me.phase = "written" /\ e.id = me.lastId
      refusal == ok /\ t = "c1" /\ g.active /\ e.m.k = ExpectedKind(g.q) /\ e.m.err # "none"
  IN
  /\ g' = [g EXCEPT !.th[t] = [me EXCEPT !.phase = "fresh", !.tr = IF ok THEN "ok" ELSE trr, !.m = IF ok THEN e.m ELSE NoResp, !.own = own,
                                         !.sawRemote = me.sawRemote \/ refusal],
                    !.nconn = c, !.acc = IF g.acc = c THEN 0 ELSE g.acc,
                    !.conns = IF Known(c) THEN [@ EXCEPT ![c] = [@ EXCEPT !.out = IF ok /\ @ > 0 THEN @ - 1 ELSE IF e.res \in {"eof", "closed"} THEN 0 ELSE @,   \* EOF: nothing more can arrive
                                                                         !.nerr = IF ok THEN @ ELSE e.res,
                                                                         !.lastN = IF e.res = "timeout" /\ t = "c1" THEN "c1timeout" ELSE "other"]] ELSE @]
  /\ UNCHANGED <<viol, drift>>

StepNClose(e) ==
  LET c == e.c
      mine == Known(c) /\ g.conns[c].lastN = "c1timeout" IN
  /\ g' = [g EXCEPT !.nconn = IF g.nconn = c THEN 0 ELSE g.nconn, !.acc = IF g.acc = c THEN 0 ELSE g.acc,
                    !.slack = IF mine THEN @ ELSE @ + 1,
                    !.conns = IF Known(c) THEN [@ EXCEPT ![c].out = 0] ELSE @]
  /\ UNCHANGED <<viol, drift>>

\* P4: the signer uses a connection again on which a read or write already failed
SignerUse(e, op) ==
  LET c == e.c
      prev == IF Known(c) THEN g.conns[c].serr ELSE "none" IN
  /\ g' = [g EXCEPT !.conns = IF Known(c) /\ e.res # "ok" /\ prev = "none" THEN [@ EXCEPT ![c].serr = op \o "_" \o e.res] ELSE @]
  /\ viol' = viol \cup FailIf(prev # "none", V("NoDeadConnReuse", "signer_" \o op \o "_on_connection_after_" \o prev))
  /\ drift' = drift

StepSClose(e) ==
  /\ g' = [g EXCEPT !.sconn = IF g.sconn = e.c THEN 0 ELSE g.sconn]
  /\ UNCHANGED <<viol, drift>>

StepSHandle(e) ==
  LET h == HandleReq(g.lss, e.q, g.chain)
      signedNow == e.q.k = "sign" /\ e.honest.err = "none" /\ e.honest.k \in {"vote", "prop"}
      rel == Rel(e.q, e.honest.out)
      bad == {a \in g.signed : ~Compatible(a, rel)}
      foreign == e.q.k \in {"sign", "pubkey"} /\ e.q.chain # g.chain
  IN
  /\ g' = [g EXCEPT !.lss = e.lss, !.signed = IF signedNow THEN @ \cup {rel} ELSE @, !.hostile = @ \/ e.variant # "none"]
  /\ viol' = viol
       \cup FailIf(foreign /\ (e.honest.err = "none" \/ e.lss # g.lss), V("ChainChecked", e.q.k \o ":request_for_another_chain_served"))
       \cup FailIf(signedNow /\ bad # {}, V("NoConflict", e.q.t \o ":" \o ConflictClass(CHOOSE a \in bad : TRUE, rel)))
  /\ drift' = drift
       \cup FailIf(e.honest # h.resp, D("the handler's answer is not HandleReq's", h.resp.k \o ":" \o h.resp.err))
       \cup FailIf(e.lss # h.lss, D("the FilePV state after the request is not HandleReq's", h.resp.err))

StepReturn(e) ==
  LET me == g.th["c1"]
      tr == me.tr
      final == e.res
      i == Interpret(e.q, tr, me.m)
      transport == final \notin {"ok", "remote_err", "unexpected"}
  IN
  /\ g' = [g EXCEPT !.active = FALSE]
  /\ viol' = viol
       \cup FailIf(~g.hostile /\ ~ReturnOK(e.q, final, e.out, tr, me.m, me.own), V("ReturnOK", ReturnClass(e.q, final, e.out, tr, me.m, me.own)))
       \* against a signer that answers what it likes only the kind and the error field are the client's business
       \cup FailIf(g.hostile /\ final = "ok" /\ e.q.k # "ping" /\ ~(tr = "ok" /\ me.m.k = ExpectedKind(e.q) /\ me.m.err = "none"),
                   V("KindChecked", ReturnClass(e.q, final, e.out, tr, me.m, TRUE)))
       \cup FailIf(e.api = "retry" /\ e.q.k # "ping" /\ final \notin {"ok", "remote_err"} /\ me.att + g.slack < g.retries,
                   V("RetryExhausts", e.q.k \o ":gave_up_before_the_attempts_were_used_up"))
  /\ drift' = drift
       \cup FailIf(~transport /\ e.q.k # "ping" /\ tr = "ok" /\ i.res # final, D("the call's result is not Interpret's", i.res))
       \cup FailIf(final = "ok" /\ tr = "ok" /\ e.q.k # "ping" /\ i.res = "ok" /\ i.out # e.out, D("the value handed back is not the response's", "none"))

StepObs(e) ==
  /\ g' = [g EXCEPT !.nconn = e.nconn]
  /\ drift' = drift
       \cup FailIf(e.settled /\ e.nconn # g.nconn /\ ~(g.nconn = 0 /\ e.nconn = g.acc), D("the node endpoint's connection is not the one the events imply", "none"))
       \cup FailIf(e.settled /\ e.sconn # g.sconn, D("the signer endpoint's connection is not the one the events imply", "none"))
       \cup FailIf(e.settled /\ e.lss # g.lss, D("the FilePV state changed outside a request", "none"))
  /\ viol' = viol

Step ==
  /\ l <= Len(Trace)
  /\ l' = l + 1
  /\ LET e == Trace[l] IN
       CASE e.ev = "Reset"     -> StepReset(e)
         [] e.ev = "CallStart" -> StepCallStart(e)
         [] e.ev = "NBlocking" -> StepNBlocking(e)
         [] e.ev = "SDial"     -> StepSDial(e)
         [] e.ev = "Accept"    -> StepAccept(e)
         [] e.ev = "Cut"       -> StepCut(e)
         [] e.ev = "NWriteBegin" -> StepNWriteBegin(e)
         [] e.ev = "NWrite"    -> StepNWrite(e)
         [] e.ev = "NRead"     -> StepNRead(e)
         [] e.ev = "NClose"    -> StepNClose(e)
         [] e.ev = "SRead"     -> SignerUse(e, "read")
         [] e.ev = "SWrite"    -> SignerUse(e, "write")
         [] e.ev = "SReuse"    -> SignerUse(e, e.op)
         [] e.ev = "SClose"    -> StepSClose(e)
         [] e.ev = "SHandle"   -> StepSHandle(e)
         [] e.ev = "Return"    -> StepReturn(e)
         [] e.ev = "Obs"       -> StepObs(e)
         [] OTHER              -> g' = g /\ UNCHANGED <<viol, drift>>

Finish ==
  /\ l = Len(Trace) + 1
  /\ WriteVerdict("verdict.json", Len(Trace), viol, drift)
  /\ l' = l + 1
  /\ UNCHANGED <<g, viol, drift>>

Next == Step \/ Finish
=============================================================================
