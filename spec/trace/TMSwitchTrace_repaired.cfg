CONSTANTS
  NodeIDs = {"a", "b"}
  Persistent = {"a"}
  Unconditional = {"b"}
  Reactors = {"r1", "r2"}
  SameIP = FALSE
  AllowDupIP = TRUE
  MaxInbound = 1
  MaxInst = 9
  MaxIncoming = 9
  MaxDials = 99
  MaxStops = 99
  MaxTries = 9
  DialTids = {"d1", "d2", "d3"}
  StopTids = {"s1", "s2", "s3"}
  RecTids = {"q1", "q2", "q3", "q4"}
  SplitMarks = FALSE
  FixedRChoice = FALSE
  AsIs_StopNotExclusive = FALSE
  AsIs_NoLifecycleLock = FALSE
  AsIs_MarksNotAtomic = FALSE
  Weak_NoRemovalFlag = FALSE
  Weak_RemoveBeforeReactors = FALSE
  Weak_AddPeerBeforeSetAdd = FALSE
  Weak_StartAfterAdd = FALSE
  Weak_NoDialingMark = FALSE
  Weak_DialingMarkLeak = FALSE
  Weak_ReconnectMarkLeak = FALSE
  Weak_NoCleanupOnAddFail = FALSE
  Weak_InboundLimitOffByOne = FALSE
  Weak_UnconditionalCounted = FALSE
  Weak_NoReconnectOnError = FALSE
  Weak_CleanupKeepsConn = FALSE
  Weak_StaleStopGuardDropped = FALSE
INIT Init
NEXT Next
CHECK_DEADLOCK FALSE
