CONSTANTS
  Weak_SyncNoFsync = FALSE
  Weak_SyncNoFlush = FALSE
  Weak_NoHeadCheck = FALSE
  Weak_EH0OnEmptyHead = FALSE
  Weak_NoRepair = FALSE
  Weak_RepairDropsLast = FALSE
  Weak_RepairNoFsync = FALSE
  Weak_SearchStopsEarly = FALSE
  Weak_RotateDropsBuf = FALSE
  Weak_DecoderAcceptsBadCRC = FALSE
  Weak_PruneNewest = FALSE
  Weak_IndexWidth3Only = FALSE
  Weak_RecordInTwoGroupWrites = FALSE
  WidthLimit = 1000
INIT Init
NEXT Next
CHECK_DEADLOCK FALSE
