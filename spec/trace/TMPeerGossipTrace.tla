--------------------------- MODULE TMPeerGossipTrace ---------------------------
(* Trace validation for C17, hostile SEQUENCES against the consensus reactor
   (harness/inpkg/consensus/zz_verif_c17seq_test.go) against TMPeerGossip.

     Reset {unit, ns, nodeh, initial, name, src, msgs}   a new connection; the node class (TMPeerGossip!NodeClasses) and
                                                   the node's height; the sequence about to be fed
     Msg   {i, m, sent, barrier, stopped, panic_caught}   message i was sent; what the node did with the peer
     End   {supported, honest, probe, progress, consensus_failure, retained, cap, stopped}
                                                   after the goroutines ran on what the sequence left behind AND the node
                                                   carried on: NewHeight timeout, one failed round, one committed height
                                                   (progress = "ok" or where it got stuck)
     Crash {where}                                 the PROCESS died while this sequence was being fed
                                                   (a panic outside every production recover)
   Level 2 (viol): hostile input only drops the peer -- no process crash, no stuck receive routine, no
   halted consensus ("never wedges the node": it still fails a round and commits a height afterwards), honest
   peer unaffected, bounded retention.
   Level 1 (drift): the peer is stopped exactly at the first message TMPeerGossip!Receive refuses.   *)
EXTENDS TMPeerGossip, TraceKit

Trace == LoadTrace("trace.ndjson")

VARIABLES l, name, nd, prs, down, viol, drift
vars == <<l, name, nd, prs, down, viol, drift>>

Init == l = 1 /\ name = "none" /\ nd = LaterClass /\ prs = NewPRS /\ down = FALSE /\ viol = {} /\ drift = {}

V(cls) == [l |-> l, inv |-> "HostileOnlyDrops", class |-> cls, case |-> name]
D(what) == [l |-> l, what |-> what]
RetainedSlack == 1048576

ClassOf(ns) == CHOOSE c \in NodeClasses : ClassName(c) = ns
StepReset(e) ==
  /\ name' = e.ns \o ":" \o e.name
  /\ nd' = [ClassOf(e.ns) EXCEPT !.abs = IF e.nodeh > 0 THEN e.nodeh ELSE @]
  /\ prs' = NewPRS /\ down' = FALSE /\ UNCHANGED <<viol, drift>>

StepMsg(e) ==
  LET x == Receive(nd, prs, e.m)
      g == GossipAll(x.nd, x.p)
  IN /\ prs' = IF down \/ x.stop THEN prs ELSE g.p
     /\ nd' = IF down \/ x.stop THEN nd ELSE x.nd
     /\ down' = (down \/ e.stopped)
     /\ drift' = drift
          \cup FailIf(~down /\ e.sent /\ x.stop # e.stopped,
                      D("peer " \o (IF e.stopped THEN "stopped" ELSE "kept") \o " where the spec " \o
                        (IF x.stop THEN "stops" ELSE "keeps") \o " it: " \o e.m.k))
          \cup FailIf(~down /\ ~e.sent, D("message not sent although the peer was connected"))
     /\ viol' = viol \cup FailIf(e.barrier = "timeout", V("wedge_receive_routine"))
     /\ UNCHANGED name

StepEnd(e) ==
  /\ viol' = viol
       \cup FailIf(e.supported /\ e.honest # "echo", V("honest_peer_affected"))
       \cup FailIf(e.supported /\ e.probe # "ok" /\ e.consensus_failure = 0, V("wedge_node"))
       \cup FailIf(e.supported /\ e.consensus_failure # 0, V("consensus_halted"))
       \cup FailIf(e.supported /\ e.consensus_failure = 0 /\ e.progress # "ok", V("no_progress_afterwards"))
       \cup FailIf(e.supported /\ e.retained > 2 * e.cap + RetainedSlack, V("retains_more_than_capacity"))
  /\ drift' = drift \cup FailIf(~e.supported, D("sequence not executed: " \o e.note))
  /\ UNCHANGED <<name, nd, prs, down>>

StepCrash(e) == viol' = viol \cup {V("process_crash")} /\ UNCHANGED <<name, nd, prs, down, drift>>

Step ==
  /\ l <= Len(Trace)
  /\ LET e == Trace[l] IN
       CASE e.ev = "Reset" -> StepReset(e)
         [] e.ev = "Msg"   -> StepMsg(e)
         [] e.ev = "End"   -> StepEnd(e)
         [] e.ev = "Crash" -> StepCrash(e)
  /\ l' = l + 1

Finish ==
  /\ l = Len(Trace) + 1
  /\ WriteVerdict("verdict.json", Len(Trace), viol, drift)
  /\ l' = l + 1
  /\ UNCHANGED <<name, nd, prs, down, viol, drift>>

Next == Step \/ Finish
=============================================================================
