CONSTANTS
  Weak_NoDupCheckOnInsert = FALSE
  Weak_ReapOffByOne = FALSE
  Weak_FullCheckOnlyOnAdmit = FALSE
  Weak_EvictWithoutBytes = FALSE
  Weak_CacheNotUpdatedOnCommit = FALSE
  Weak_RecheckKeepsRejected = FALSE
  Weak_VarintBoundaryOffByOne = FALSE
  Weak_NonAtomicAdmission = FALSE
INIT Init
NEXT Next
CHECK_DEADLOCK FALSE
