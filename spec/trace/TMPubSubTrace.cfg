CONSTANTS
  Clients <- TraceClients
  NQ = 8
  CmdCap = 1000
  EvalQE <- TraceEval
  Weak_ErrorAbortsPublish = FALSE
  Weak_BlockOnFullBuffer = FALSE
  Weak_UnsubLeavesQuery = FALSE
  Weak_DoubleRemoveReleasesForeignRef = FALSE
INIT Init
NEXT Next
CHECK_DEADLOCK FALSE
