CONSTANTS
  N = 4
  Sizes = {}
  MaxVotes = 10000
  MaxParts = 1601
  Weak_BitArrayOpsAssumeEqualSize = FALSE
  Weak_LastCommitNilDeref = FALSE
  Weak_SetRoundRecreatesRound = FALSE
INIT Init
NEXT Next
CHECK_DEADLOCK FALSE
