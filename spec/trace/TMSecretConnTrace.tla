------------------------- MODULE TMSecretConnTrace -------------------------
(* Trace validation for C16: what two REAL MakeSecretConnection endpoints did over an
   interposed, attacker-driven pipe (harness/inpkg/p2p/conn/zz_verif_c16_test.go), checked
   against TMSecretConn.

   The trace spec reuses the variables of TMSecretConn as the OBSERVED state: every line is
   (level 1) compared with what the design operator computes from the previous observed
   state -- a difference is `drift` -- and then the logged result is installed; (level 2) the
   C16 properties are evaluated on the installed, observed state -- a failure is `viol`.

   Concrete bytes are named by the harness with an independent symbolic table (HKDF / merlin /
   trial decryption with every key it can derive): keys as [dh, half], challenges as
   [lo, hi, dh], sealed frames as [key, nonce, plaintext].  Unknown bytes get fresh names.  *)
EXTENDS TMSecretConn, TraceKit

HonestDef == {"A", "B"}
NoRanks   == {}
NoKinds   == {}
NoSz      == [X \in HonestDef |-> {}]
MEphsTrace == {"eM"}

Trace == LoadTrace("trace.ndjson")

VARIABLES l, viol, drift

\* ---------------------------------------------------------------- JSON -> spec values
KeyJ(k)  == [dh |-> ToSet(k.dh), half |-> k.half]
ChalJ(c) == [lo |-> c.lo, hi |-> c.hi, dh |-> ToSet(c.dh)]
SigJ(s)  == [signer |-> s.signer, msg |-> ChalJ(s.msg)]
FrameJ(f) == [key |-> KeyJ(f.key), nonce |-> f.nonce, kind |-> f.kind, pub |-> f.pub, sig |-> SigJ(f.sig),
              src |-> f.src, lo |-> f.lo, hi |-> f.hi, st |-> f.st]
FramesJ(fs) == [i \in 1..Len(fs) |-> FrameJ(fs[i])]
SegJ(s) == [src |-> s.src, lo |-> s.lo, hi |-> s.hi]
RECURSIVE AddSegs(_, _)
AddSegs(d, segs) == IF Len(segs) = 0 THEN d ELSE AddSegs(AddSeg(d, SegJ(Head(segs))), Tail(segs))

At(seq, i) == IF i \in 1..Len(seq) THEN seq[i] ELSE NoFrame
D(cond, what) == IF cond THEN {what} ELSE {}
V(cond, inv, class) == IF cond THEN {[inv |-> inv, class |-> class]} ELSE {}

Base == [rank |-> rank, sess |-> sess, ephIn |-> ephIn, out |-> out, inbox |-> inbox, closed |-> closed,
         fwd |-> fwd, dirty |-> dirty, edits |-> edits, d |-> {}, v |-> {}]

\* frames X just sealed that reuse a (key, nonce) of any other sealed frame
NonceViol(o1, X, from) ==
  UNION {UNION {V(~(Y = X /\ j = i) /\ o1[X][i].key = o1[Y][j].key /\ o1[X][i].nonce = o1[Y][j].nonce,
                  "NonceFresh",
                  IF Y = X THEN "same_writer" ELSE IF o1[X][i].key.dh = Zero THEN "other_writer_zero_dh"
                  ELSE "other_writer") : j \in 1..Len(o1[Y])} : Y \in Honest, i \in from..Len(o1[X])}

\* ---------------------------------------------------------------- events
OnReset(e) ==
  [rank |-> e.rank, sess |-> [X \in Honest |-> NewSess], ephIn |-> [X \in Honest |-> "none"],
   out |-> [X \in Honest |-> << >>], inbox |-> [X \in Honest |-> << >>], closed |-> [X \in Honest |-> FALSE],
   fwd |-> [X \in Honest |-> 0], dirty |-> [X \in Honest |-> FALSE], edits |-> 0, d |-> {}, v |-> {}]

OnSendEph(e) ==
  [Base EXCEPT !.sess[e.p].ephSent = TRUE,
               !.d = D(e.eph # Eph(e.p), "SendEph: not the scripted ephemeral key")]

OnMEph(e) ==
  [Base EXCEPT !.ephIn[e.p] = e.eph, !.dirty[e.p] = @ \/ e.eph # Eph(Peer(e.p))]

OnProcessEph(e) ==
  LET X  == e.p
      r  == ProcessEphOp(rank, X, sess[X], ephIn[X])
      fs == FramesJ(e.frames)
      s1 == [r.s EXCEPT !.pc = IF e.ok THEN "auth" ELSE "failed", !.err = e.err]
      o1 == [out EXCEPT ![X] = @ \o fs]
  IN [Base EXCEPT !.sess[X] = s1, !.out = o1,
        !.d = D(r.s.pc # s1.pc \/ r.s.err # e.err, "ProcessEph: outcome differs from spec")
              \cup D(fs # r.out, "ProcessEph: sealed AuthSigMessage differs from spec")
              \cup D(e.ok /\ ChalJ(e.signed) # Chal(Transcript(rank, Eph(X), ephIn[X])),
                     "ProcessEph: signed challenge is not the transcript challenge")
              \cup D(e.ok /\ ephIn[X] \in LowOrder, "ProcessEph: low-order point accepted"),
        !.v = NonceViol(o1, X, Len(out[X]) + 1)]

OnM(e) ==
  LET X == e.p
      P == Peer(X)
      items == FramesJ(e.items)
      nxt == At(out[P], fwd[X] + 1)
      exp == CASE e.op = "fwd"     -> <<nxt>>
               [] e.op = "flip"    -> <<[nxt EXCEPT !.st = "flip"]>>
               [] e.op = "drop"    -> << >>
               [] e.op = "swap"    -> <<At(out[P], fwd[X] + 2), nxt>>
               [] e.op = "replay"  -> <<At(out[P], e.i)>>
               [] e.op = "reflect" -> <<At(out[X], e.i)>>
               [] e.op = "inject"  -> <<JunkFrame>>
               [] e.op = "trunc"   -> <<[nxt EXCEPT !.st = "part"]>>
               [] e.op = "eof"     -> << >>
               [] e.op = "forge"   -> <<Frame(RecvKey(rank, Eph(X), sess[X].remEph), e.nonce, "auth", e.pub,
                                             SigJ(e.sig), Attacker, 0, 0)>>
               [] OTHER            -> <<NoFrame>>
  IN [Base EXCEPT !.inbox[X] = @ \o items, !.fwd[X] = @ + e.adv, !.closed[X] = @ \/ e.closed,
                  !.dirty[X] = @ \/ e.op # "fwd", !.edits = IF e.op = "fwd" THEN @ ELSE @ + 1,
                  !.d = D(items # exp, "M: items on the wire differ from the spec's for this edit")]

OnRecvAuth(e) ==
  LET X   == e.p
      eof == inbox[X] = << >>
      f   == IF eof THEN NoFrame ELSE Head(inbox[X])
      exp == IF eof THEN RecvAuthEof(sess[X]) ELSE RecvAuthOp(rank, X, sess[X], f, Genuine(X))
      tam == exp.last.tam
      s1  == [exp EXCEPT !.pc = IF e.ok THEN "established" ELSE "failed", !.err = e.err, !.remPub = e.remPub,
                         !.remSig = IF e.ok THEN f.sig ELSE NoSig,
                         !.recvNonce = IF e.ok THEN e.recvNonce ELSE @,
                         !.sendNonce = IF e.ok THEN e.sendNonce ELSE @,
                         !.gen = IF e.ok /\ ~tam THEN sess[X].gen + 1 ELSE sess[X].gen,
                         !.last = [tam |-> tam, err |-> e.err, n |-> 0]]
      ss1 == [sess EXCEPT ![X] = s1]
      ib1 == [inbox EXCEPT ![X] = IF eof THEN @ ELSE Tail(@)]
  IN [Base EXCEPT !.sess = ss1, !.inbox = ib1,
        !.d = D(exp.pc # s1.pc \/ exp.err # e.err \/ exp.remPub # e.remPub, "RecvAuth: outcome differs from spec")
              \cup D(e.ok /\ (exp.recvNonce # e.recvNonce \/ exp.sendNonce # e.sendNonce), "RecvAuth: nonces differ from spec")
              \cup D(e.ok /\ (KeyJ(e.sendKey) # SendKey(rank, Eph(X), s1.remEph) \/ KeyJ(e.recvKey) # RecvKey(rank, Eph(X), s1.remEph)),
                     "RecvAuth: AEAD keys differ from spec"),
        !.v = V(~AuthenticatedAt(ss1, X), "Authenticated", AuthClass(ss1, X))
              \cup V(~TamperFailsAt(ss1, X), "TamperFails", "handshake:" \o f.st)
              \cup V(~DeliveredExactAt(ss1, out, ib1, fwd, dirty, X), "DeliveredExact", "handshake")]

OnWrite(e) ==
  LET X  == e.p
      r  == WriteOp(rank, X, sess[X], e.size, e.fail)     \* e.fail: which sc.conn.Write the pipe failed late (0 = none)
      fs == FramesJ(e.frames)
      s1 == [sess[X] EXCEPT !.sendNonce = e.sendNonce, !.sentLen = @ + e.sealed, !.nframes = @ + Len(fs),
                            !.wfaults = IF e.fail > 0 THEN @ + 1 ELSE @]
      o1 == [out EXCEPT ![X] = @ \o fs]
  IN [Base EXCEPT !.sess[X] = s1, !.out = o1,
        !.d = D(fs # r.out, "Write: sealed frames differ from spec")
              \cup D(e.n # r.n \/ e.err # r.err, "Write: (n, err) differs from spec")
              \cup D(r.s.sentLen # s1.sentLen, "Write: bytes sealed differ from spec")
              \cup D(r.s.sendNonce # e.sendNonce, "Write: sendNonce differs from spec"),
        !.v = NonceViol(o1, X, Len(out[X]) + 1)]

OnRead(e) ==
  LET X   == e.p
      ib  == inbox[X]
      r   == ReadOp(rank, X, sess[X], e.size, ib, Genuine(X))
      f   == IF e.took >= 1 /\ ib # << >> THEN Head(ib) ELSE NoFrame
      tam == e.took >= 1 /\ Tampered(X, sess[X], f, Genuine(X))
      dl1 == AddSegs(sess[X].delivered, e.segs)
      s1  == [sess[X] EXCEPT !.recvNonce = e.recvNonce, !.buf = SegJ(e.buf), !.delivered = dl1, !.reads = @ + 1,
                             !.gen = IF e.took >= 1 /\ ~tam /\ e.err = "none" THEN @ + 1 ELSE @,
                             !.last = [tam |-> tam, err |-> e.err, n |-> e.n]]
      ss1 == [sess EXCEPT ![X] = s1]
      ib1 == [inbox EXCEPT ![X] = SubSeq(@, MinOf(e.took, Len(@)) + 1, Len(@))]
      bad == {i \in 1..Len(dl1) : dl1[i].src # Peer(X)}
  IN [Base EXCEPT !.sess = ss1, !.inbox = ib1,
        !.d = D(r.took # e.took, "Read: number of frames consumed differs from spec")
              \cup D(r.s.last.err # e.err \/ r.s.last.n # e.n, "Read: (n, err) differs from spec")
              \cup D(r.s.recvNonce # e.recvNonce, "Read: recvNonce differs from spec")
              \cup D(r.s.buf # s1.buf, "Read: recvBuffer differs from spec")
              \cup D(r.s.delivered # dl1, "Read: bytes returned differ from spec"),
        !.v = V(PrefixExactAt(sess, X) /\ ~PrefixExactAt(ss1, X), "PrefixExact",
                IF bad # {} THEN "plaintext_from:" \o dl1[CHOOSE i \in bad : TRUE].src
                ELSE IF Len(dl1) > 1 \/ dl1[1].lo # 0 THEN "out_of_order" ELSE "beyond_written")
              \cup V(~TamperFailsAt(ss1, X), "TamperFails", "read:" \o f.st)
              \cup V(~DeliveredExactAt(ss1, out, ib1, fwd, dirty, X), "DeliveredExact",
                     IF e.err # "none" THEN "untampered_read_fails:" \o e.err ELSE "untampered_bytes_differ")]

TraceInit == /\ l = 1 /\ viol = {} /\ drift = {}
             /\ rank = [lowMin |-> 0, eA |-> 2, eB |-> 4, eM |-> 3, lowMax |-> 9]
             /\ sess = [X \in Honest |-> NewSess]
             /\ ephIn = [X \in Honest |-> "none"]
             /\ out = [X \in Honest |-> << >>]
             /\ inbox = [X \in Honest |-> << >>]
             /\ closed = [X \in Honest |-> FALSE]
             /\ fwd = [X \in Honest |-> 0]
             /\ dirty = [X \in Honest |-> FALSE]
             /\ edits = 0
             /\ act = [name |-> "Trace"]

Step ==
  /\ l <= Len(Trace)
  /\ LET e == Trace[l]
         r == CASE e.ev = "Reset"      -> OnReset(e)
                [] e.ev = "SendEph"    -> OnSendEph(e)
                [] e.ev = "MEph"       -> OnMEph(e)
                [] e.ev = "ProcessEph" -> OnProcessEph(e)
                [] e.ev = "M"          -> OnM(e)
                [] e.ev = "RecvAuth"   -> OnRecvAuth(e)
                [] e.ev = "Write"      -> OnWrite(e)
                [] e.ev = "Read"       -> OnRead(e)
     IN /\ rank' = r.rank /\ sess' = r.sess /\ ephIn' = r.ephIn /\ out' = r.out /\ inbox' = r.inbox
        /\ closed' = r.closed /\ fwd' = r.fwd /\ dirty' = r.dirty /\ edits' = r.edits
        /\ drift' = drift \cup {[l |-> l, what |-> w] : w \in r.d}
        /\ viol' = viol \cup {[l |-> l, inv |-> x.inv, class |-> x.class] : x \in r.v}
  /\ l' = l + 1
  /\ UNCHANGED act

Finish ==
  /\ l = Len(Trace) + 1
  /\ WriteVerdict("verdict.json", Len(Trace), viol, drift)
  /\ l' = l + 1
  /\ UNCHANGED <<rank, sess, ephIn, out, inbox, closed, fwd, dirty, edits, act, viol, drift>>

TraceNext == Step \/ Finish
=============================================================================
