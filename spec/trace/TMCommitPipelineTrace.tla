------------------------ MODULE TMCommitPipelineTrace ------------------------
(* Trace validation for C05 (commit pipeline): a trace is what the harness
   harness/inpkg/consensus/zz_verif_c05_test.go recorded while a REAL node (real BlockStore,
   state store, WAL, BlockExecutor, Handshaker, consensus.State, recording application) was
   run, crashed before a chosen operation, restarted through Handshake, crashed again, ...

   Level 1 (drift): the design machine TMCommitPipeline!Do is run next to the trace; every
     observed operation must be the operation the machine is about to execute (silent steps
     are closed over, WAL message writes of the consensus round are free), and the durable
     state it predicts must equal the projection the harness logged.
   Level 2 (viol): the properties are evaluated on the OBSERVED events and projections only.  *)
EXTENDS TMCommitPipeline, TraceKit

Trace == LoadTrace("trace.ndjson")

VARIABLES l,      \* next line
          s,      \* design machine state (level 1)
          l1,     \* level 1 still in step with the trace in this run
          mon,    \* journal monitor (level 2)
          blk,    \* transactions of the block the application is executing (from BeginBlock)
          mp,     \* mempool bracket monitor
          prev,   \* projection logged with the previous line
          rolled, \* the application lost committed blocks in this run (Rollback events)
          tampered, \* an operator put back older data / the application is ahead (Restore, Rollback to a higher height)
          hsin,   \* projection logged with the last Info call = the cursors the Handshake was faced with
          viol, drift
vars == <<l, s, l1, mon, blk, mp, prev, rolled, tampered, hsin, viol, drift>>

NoCfg  == [maxh |-> 0, txs |-> << >>, vu |-> << >>, pu |-> << >>, retain |-> << >>, hashc |-> TRUE, ih |-> 1, discard |-> FALSE]
MpInit == [locked |-> FALSE, flushed |-> FALSE]
Post0  == [bs_h |-> 0, bs_base |-> 0, ss_saved |-> FALSE, ss_h |-> 0, ss_hash |-> Hash0, ss_last |-> 0,
           ss_lhvc |-> 0, ss_lhpc |-> 0, ss_pid |-> 0, ss_appv |-> 0, ss_nv |-> 0,
           app_h |-> 0, app_hash |-> Hash0, wal_end |-> 0]

Init == /\ l = 1 /\ s = InitState(NoCfg) /\ l1 = FALSE /\ mon = MonInit /\ blk = << >> /\ mp = MpInit
        /\ prev = Post0 /\ rolled = FALSE /\ tampered = FALSE /\ hsin = Post0 /\ viol = {} /\ drift = {}

\* ------------------------------------------------------------------ projection of the design state
RECURSIVE MaxEnd(_, _)
MaxEnd(w, k) == IF k = 0 THEN 0
                ELSE LET r == MaxEnd(w, k - 1) IN IF w[k].t = "end" /\ w[k].h > r THEN w[k].h ELSE r
Proj(x) == [bs_h |-> x.bs_h, bs_base |-> x.bs_base, ss_saved |-> x.ss_saved, ss_h |-> x.ss_st.h,
            ss_hash |-> x.ss_st.hash, ss_last |-> x.ss_last.h, app_h |-> x.app_h, app_hash |-> x.app_hash,
            ss_lhvc |-> IF x.ss_saved THEN x.ss_st.lhvc ELSE 0, ss_lhpc |-> IF x.ss_saved THEN x.ss_st.lhpc ELSE 0,
            ss_pid |-> IF x.ss_saved THEN x.ss_st.pid ELSE 0,
            ss_appv |-> IF x.ss_saved THEN AppVersionOf(x.ss_st.pid) ELSE 0,
            ss_nv |-> IF x.ss_saved THEN x.ss_st.nv ELSE 0,
            wal_end |-> MaxEnd(x.wal, Len(x.wal))]

\* ------------------------------------------------------------------ level 1: which observable operation is next
IsWalMsg(e) == e.op = "wal" /\ e.k # "endheight"
MockSilent(x) == x.mode = "mock" /\ x.pc \in {"AB_Begin", "AB_Deliver", "AB_End", "AB_AppCommit"}

\* run the design machine over everything the harness cannot see; if the next observed
\* operation is not a WAL message of the round, the round is over (the node decided)
RECURSIVE Close(_, _, _)
Close(x, e, fuel) ==
  IF fuel = 0 THEN x
  ELSE IF x.pc \in SilentPcs \/ MockSilent(x) THEN Close(Do(x), e, fuel - 1)
  ELSE IF x.pc = "CS" /\ e.ev \in {"Op", "Crash"} /\ ~IsWalMsg(e) /\ x.cs_h <= x.cfg.maxh
       THEN Close(Do([x EXCEPT !.cs_n = 2]), e, fuel - 1)
  ELSE x

Exp(op, k, h, i) == [op |-> op, k |-> k, h |-> h, i |-> i]
Expected(x) ==
  CASE x.pc = "HS_Info"          -> Exp("abci", "Info", 0, 0)
    [] x.pc = "HS_InitChain"     -> Exp("abci", "InitChain", 0, 0)
    [] x.pc = "HS_SaveGenVals1"  -> Exp("db", "ss:vals", x.cfg.ih, 0)
    [] x.pc = "HS_SaveGenVals2"  -> Exp("db", "ss:vals", x.cfg.ih + 1, 0)
    [] x.pc = "HS_SaveGenParams" -> Exp("db", "ss:params", x.cfg.ih, 0)
    [] x.pc = "HS_SaveGenState"  -> Exp("db", "ss:state", 0, 0)
    [] x.pc \in {"EC_Begin", "AB_Begin"}     -> Exp("abci", "BeginBlock", x.h, 0)
    [] x.pc \in {"EC_Deliver", "AB_Deliver"} -> Exp("abci", "DeliverTx", x.h, x.i)
    [] x.pc \in {"EC_End", "AB_End"}         -> Exp("abci", "EndBlock", x.h, 0)
    [] x.pc \in {"EC_Commit", "AB_AppCommit"} -> Exp("abci", "Commit", x.h, 0)
    [] x.pc = "AB_SaveABCIResp1" -> Exp("db", "ss:abci", x.h, 0)
    [] x.pc = "AB_SaveABCIResp2" -> Exp("db", "ss:lastabci", x.h, 0)
    [] x.pc = "AB_MempoolLock"   -> Exp("mp", "Lock", x.h, 0)
    [] x.pc = "AB_FlushMempoolConn" -> Exp("mp", "FlushAppConn", x.h, 0)
    [] x.pc = "AB_MempoolUpdate" -> Exp("mp", "Update", x.h, 0)
    [] x.pc = "AB_MempoolUnlock" -> Exp("mp", "Unlock", x.h, 0)
    [] x.pc = "AB_EvpoolUpdate"  -> Exp("evp", "Update", x.h, 0)
    [] x.pc = "AB_SaveVals"      -> Exp("db", "ss:vals", x.h + 2, 0)
    [] x.pc = "AB_SaveParams"    -> Exp("db", "ss:params", x.h + 1, 0)
    [] x.pc = "AB_SaveStateKey"  -> Exp("db", "ss:state", x.h, 0)
    [] x.pc = "FC_BSPart"        -> Exp("db", "bs:part", x.h, 0)
    [] x.pc = "FC_BSMeta"        -> Exp("db", "bs:meta", x.h, 0)
    [] x.pc = "FC_BSHash"        -> Exp("db", "bs:hash", x.h, 0)
    [] x.pc = "FC_BSCommit"      -> Exp("db", "bs:commit", x.h, 0)
    [] x.pc = "FC_BSSeen"        -> Exp("db", "bs:seen", x.h, 0)
    [] x.pc = "FC_BSState"       -> Exp("db", "bs:state", x.h, IF x.bs_base = 0 THEN x.h ELSE x.bs_base)
    [] x.pc = "FC_WalEndHeight"  -> Exp("wal", "endheight", x.h, 0)
    [] x.pc = "R_RepairEndHeight" -> Exp("wal", "endheight", x.cs_h - 1, 0)
    [] x.pc = "FC_PruneBSState"  -> Exp("db", "bs:state", x.bs_h, x.retain)
    [] x.pc = "FC_PruneBSBatch"  -> Exp("db", "bs:batch", 0, 0)
    [] x.pc = "FC_PruneSSBatch"  -> Exp("db", "ss:batch", 0, 0)
    [] OTHER                     -> Exp("none", x.pc, 0, 0)

Matches(x, e) == Expected(x) = Exp(e.op, e.k, e.h, e.i)
WalRec(e) == [t |-> "msg", h |-> e.h, k |-> IF e.k = "msg:precommit" THEN "precommit" ELSE "other"]

D(what, x) == [l |-> l, what |-> what, spec |-> x.pc]

\* ------------------------------------------------------------------ level 2 helpers
V(inv, class) == [l |-> l, inv |-> inv, class |-> class]

JournalEvent(e) ==
  CASE e.k = "InitChain"  -> JE("InitChain", 0, 0)
    [] e.k = "BeginBlock" -> JE("Begin", e.h, 0)
    [] e.k = "DeliverTx"  -> JE("Deliver", e.h, e.i)
    [] e.k = "EndBlock"   -> JE("End", e.h, 0)
    [] e.k = "Commit"     -> JE("Commit", e.h, 0)
    [] OTHER              -> JE("none", 0, 0)
IsJournalOp(e) == e.ev = "Op" /\ e.op = "abci" /\ e.k \in {"InitChain", "BeginBlock", "DeliverTx", "EndBlock", "Commit"}

\* Which row of ReplayBlocks' outcome table (as repaired) the last Handshake was faced with; used to
\* tell violations apart that only arise from cursors no crash of this node can produce.
HsTag == IF hsin.bs_h = 0 THEN "empty_store"
         ELSE HandshakeCase(s.cfg.ih, hsin.bs_h, hsin.bs_base, hsin.ss_h, hsin.app_h)
Tagged(class) == IF tampered THEN class \o "@" \o HsTag ELSE class

CursorClass(p) == IF tampered THEN ""
                  ELSE IF p.bs_h \notin {p.ss_h, NextH(s.cfg, p.ss_h)} THEN "store_vs_state"
                  ELSE IF p.app_h > p.bs_h THEN "app_ahead_of_store"
                  ELSE IF p.app_h < p.ss_h /\ ~rolled THEN "state_ahead_of_app"
                  ELSE IF p.app_h > NextH(s.cfg, p.ss_h) THEN "app_two_ahead_of_state" ELSE ""

\* invariants on a logged projection, checked after every line; a failure is reported at the
\* step that breaks the invariant (not again on every later line while the state stays broken)
\* The saved sm.State against the chain's state for its height = what an uncrashed ApplyBlock computes,
\* which the spec prescribes from the chain plan (StateAfter): "" or the first field that differs
StateClass(p) ==
  IF ~p.ss_saved THEN ""
  ELSE LET t == StateAfter(s.cfg, p.ss_h) IN
       IF p.ss_pid # t.pid THEN "consensus_params"
       ELSE IF p.ss_lhpc # t.lhpc THEN "last_height_consensus_params_changed"
       ELSE IF p.ss_appv # AppVersionOf(t.pid) THEN "app_version"
       ELSE IF p.ss_nv # t.nv THEN "next_validators"
       ELSE IF p.ss_lhvc # t.lhvc THEN "last_height_validators_changed"
       ELSE IF ~tampered /\ p.ss_hash # t.hash THEN "app_hash" ELSE ""

PostBad(p) ==
  (IF CursorClass(p) # "" THEN {<<"CursorsWithinOne", CursorClass(p)>>} ELSE {})
  \cup (IF StateClass(p) # "" THEN {<<"StateIsChainState", "saved_state_differs_from_chain:" \o StateClass(p)>>} ELSE {})
  \cup (IF p.wal_end > p.bs_h THEN {<<"WalEndImpliesStored", "endheight_before_block_saved">>} ELSE {})
PostViol(p) == {V(x[1], x[2]) : x \in PostBad(p) \ PostBad(prev)}

\* ------------------------------------------------------------------ steps
StepReset(e) ==
  /\ s' = InitState(e.cfg)
  /\ l1' = TRUE /\ mon' = MonInitOf(e.cfg.ih) /\ blk' = << >> /\ mp' = MpInit
  /\ viol' = viol \cup PostViol(e.post)
  /\ UNCHANGED drift

StepOp(e) ==
  LET x    == Close(s, e, 24)
      walm == IsWalMsg(e)
      ok   == IF walm THEN x.pc \in {"CS", "Stalled"} ELSE Matches(x, e)
      y    == IF walm THEN [x EXCEPT !.wal = Append(x.wal, WalRec(e)),
                                     !.pv = IF e.k \in {"msg:part", "msg:prevote", "msg:precommit"} /\ e.h >= x.pv.h
                                            THEN [h |-> e.h, step |-> 2] ELSE x.pv]
              ELSE Do(x)
      okp  == Proj(y) = e.post
      \* level 2
      jop  == IsJournalOp(e)
      je   == JournalEvent(e)
      nb   == IF e.k = "BeginBlock" THEN Len(e.blk) ELSE Len(blk)
      bad0 == MonBad(mon, je, nb)
      bad  == IF bad0 # "" THEN bad0
              ELSE IF e.k = "InitChain" /\ prev.app_h # 0 THEN "initchain_after_commit"
              ELSE IF e.k = "DeliverTx" /\ (e.i + 1 > Len(blk) \/ blk[e.i + 1] # e.tx) THEN "deliver_wrong_tx"
              ELSE ""
      real == e.phase = "cs"           \* the node's own BlockExecutor (not the Handshaker's)
  IN
  /\ s'  = IF l1 /\ ok THEN y ELSE s
  /\ l1' = (l1 /\ ok /\ okp)
  /\ drift' = drift
        \cup FailIf(l1 /\ ~ok, D("observed " \o e.op \o "/" \o e.k \o " is not the operation the spec executes next", x))
        \cup FailIf(l1 /\ ok /\ ~okp, D("durable state after " \o e.op \o "/" \o e.k \o " differs from the spec's", x))
  /\ mon' = IF jop THEN MonNext(mon, je) ELSE mon
  /\ blk' = IF e.k = "BeginBlock" /\ e.op = "abci" THEN e.blk ELSE blk
  /\ mp'  = IF e.op = "mp" THEN
               (CASE e.k = "Lock" -> [locked |-> TRUE, flushed |-> FALSE]
                  [] e.k = "FlushAppConn" -> [mp EXCEPT !.flushed = TRUE]
                  [] e.k = "Unlock" -> MpInit
                  [] OTHER -> mp)
            ELSE mp
  /\ viol' = viol
        \cup FailIf(jop /\ bad # "", V("JournalWellFormed", Tagged(bad)))
        \cup FailIf(jop /\ e.k = "Commit" /\ real /\ ~mp.locked, V("MempoolBracket", "commit_without_mempool_lock"))
        \cup FailIf(jop /\ e.k = "Commit" /\ real /\ mp.locked /\ ~mp.flushed, V("MempoolBracket", "commit_without_flush"))
        \cup FailIf(e.op = "mp" /\ e.k = "Update" /\ ~mp.locked, V("MempoolBracket", "update_without_mempool_lock"))
        \cup FailIf(jop /\ e.k = "Commit" /\ real /\ prev.ss_last # e.h, V("ResponsesBeforeCommit", "commit_before_abci_responses_saved"))
        \cup PostViol(e.post)

StepCrash(e) ==
  LET x  == Close(s, e, 24)
      ok == IF IsWalMsg(e) THEN x.pc \in {"CS", "Stalled"} ELSE Matches(x, e) IN
  /\ s'  = IF l1 /\ ok THEN CrashOf(x, Label(x)) ELSE s
  /\ l1' = (l1 /\ ok)
  /\ drift' = drift \cup FailIf(l1 /\ ~ok, D("crash before " \o e.op \o "/" \o e.k \o ": not the operation the spec executes next", x))
  /\ mon' = MonNext(mon, JE("Crash", 0, 0))
  /\ mp'  = MpInit
  /\ viol' = viol \cup PostViol(e.post)
  /\ UNCHANGED blk

StepHandshakeDone(e) ==
  LET x  == Close(s, e, 24)
      ok == x.pc = "HS_Done"
      p  == e.post IN
  /\ s'  = IF l1 /\ ok THEN Do(x) ELSE s
  /\ l1' = (l1 /\ ok /\ Proj(x) = p)
  /\ drift' = drift \cup FailIf(l1 /\ ~(ok /\ Proj(x) = p), D("Handshake completed; the spec is elsewhere or predicts other cursors", x))
  /\ viol' = viol
        \cup FailIf(p.app_h # p.ss_h, V("HeightsAgree", Tagged("app_height_ne_state_height")))
        \cup FailIf(p.bs_h # p.ss_h, V("HeightsAgree", Tagged("store_height_ne_state_height")))
        \cup FailIf(p.app_h = p.ss_h /\ p.app_hash # p.ss_hash, V("HeightsAgree", Tagged("app_hash_ne_state_apphash")))
        \cup PostViol(p)
  /\ UNCHANGED <<mon, blk, mp>>

\* the node could not start / stopped making progress: HandshakeError | Panic | Stuck
StepFailed(e) ==
  LET x  == Close(s, e, 24)
      ok == x.pc \in {"HS_Error", "Panic", "Stalled"} IN
  /\ s' = s
  /\ l1' = FALSE
  /\ drift' = drift \cup FailIf(l1 /\ ~ok, D(e.ev \o " (" \o e.msg \o ") is not predicted by the spec", x))
  \* a node that refuses to start on cursors an operator made inconsistent does the right thing
  /\ viol' = viol \cup FailIf(~tampered, V("Progress", e.ev \o ":" \o e.msg \o
                                        \* the chain starts above height 1 and its first block is stored but not applied
                                        (IF s.cfg.ih > 1 /\ hsin.ss_h = 0 /\ hsin.bs_h > 0 THEN "@first_block_above_height_1" ELSE "")))
              \cup PostViol(e.post)
  /\ UNCHANGED <<mon, blk, mp>>

StepCatchup(e) ==
  LET x == Close(s, e, 24) IN
  /\ s' = IF l1 THEN x ELSE s
  /\ l1' = (l1 /\ x.cu = e.msg)
  /\ drift' = drift \cup FailIf(l1 /\ x.cu # e.msg, D("catchupReplay returned '" \o e.msg \o "', the spec expects '" \o x.cu \o "'", x))
  /\ viol' = viol \cup PostViol(e.post)
  /\ UNCHANGED <<mon, blk, mp>>

StepDone(e) ==
  LET p == e.post IN
  /\ viol' = viol
        \cup FailIf(p.ss_h < e.tgt \/ p.app_h < e.tgt \/ p.bs_h < e.tgt, V("Progress", "target_height_not_committed"))
        \cup FailIf(mon.open # 0, V("JournalWellFormed", "run_ends_inside_block"))
        \cup PostViol(p)
  /\ UNCHANGED <<s, l1, mon, blk, mp, drift>>

\* the application came back reporting another height than it had (fewer blocks: it lost commits;
\* more: it is ahead of the node)
StepRollback(e) ==
  /\ s' = IF l1 THEN AppSetOf(s, e.h) ELSE s
  /\ mon' = MonNext(mon, JE("Rollback", e.h, 0))
  /\ UNCHANGED <<l1, blk, mp, viol, drift>>

\* an operator put back an older copy of the block store (bs), the state store (ss), the WAL and the
\* key's last-sign state (wp), taken when height e.h was the last committed one
StepRestore(e) ==
  /\ s' = IF ~l1 THEN s
          ELSE IF e.k = "bs" THEN RestoreBS(s, e.h)
          ELSE IF e.k = "ss" THEN RestoreSS(s, e.h)
          ELSE RestoreWP(s, e.h)
  /\ l1' = (l1 /\ Proj(s') = e.post)
  /\ drift' = drift \cup FailIf(l1 /\ Proj(s') # e.post, D("the restored copy is not what the spec expects at that height", s))
  /\ UNCHANGED <<mon, blk, mp, viol>>

StepOther(e) ==
  /\ viol' = viol \cup PostViol(e.post)
  /\ UNCHANGED <<s, l1, mon, blk, mp, drift>>

Step ==
  /\ l <= Len(Trace)
  /\ LET e == Trace[l] IN
       /\ CASE e.ev = "Reset" -> StepReset(e)
            [] e.ev = "Op" -> StepOp(e)
            [] e.ev = "Crash" -> StepCrash(e)
            [] e.ev = "HandshakeDone" -> StepHandshakeDone(e)
            [] e.ev \in {"HandshakeError", "Panic", "Stuck"} -> StepFailed(e)
            [] e.ev = "Catchup" -> StepCatchup(e)
            [] e.ev = "Done" -> StepDone(e)
            [] e.ev = "Rollback" -> StepRollback(e)
            [] e.ev = "Restore" -> StepRestore(e)
            [] OTHER -> StepOther(e)
       /\ prev' = e.post
       /\ rolled' = IF e.ev = "Reset" THEN FALSE ELSE (rolled \/ e.ev = "Rollback")
       /\ tampered' = IF e.ev = "Reset" THEN FALSE
                      ELSE (tampered \/ e.ev = "Restore" \/ (e.ev = "Rollback" /\ e.h > prev.app_h))
       /\ hsin' = IF e.ev = "Op" /\ e.op = "abci" /\ e.k = "Info" THEN e.post ELSE hsin
  /\ l' = l + 1

Finish ==
  /\ l = Len(Trace) + 1
  /\ WriteVerdict("verdict.json", Len(Trace), viol, drift)
  /\ l' = l + 1
  /\ UNCHANGED <<s, l1, mon, blk, mp, prev, rolled, tampered, hsin, viol, drift>>

Next == Step \/ Finish
=============================================================================
