---------------------------- MODULE TMMConnTrace ----------------------------
(* Trace validation for C17, connection half: observations of REAL MConnections
   (harness/inpkg/p2p/conn/zz_verif_c17_test.go) against TMMConn.

   Events (one JSON object per line):
     Reset   {mode: lockstep|concurrent|hostile, cfg}
     Send    {ch, m, try}           a Send/TrySend call is about to be made
     SendRes {ch, ok, up_a, snd}         its result (+ projection of the sender)
     Step    {exhausted, snd}       lockstep: one MConnection.sendPacketMsg call
     Pkt     {pkt}                  a PacketMsg seen on the wire (tap on the sender's conn)
     Inject  {pkt, fits}            hostile: the remote peer wrote this packet
     Dlv     {ch, m}                onReceive was called with m
     Sync    {recving, up, err, nerr, barrier, final, honest, up_a, snd}
                                    quiescent point (ping/pong barrier or idle wait)
     Crash   {where}                the harness PROCESS died with a panic while this run was
                                    executing (synthesised by the runner from the dead process)
   Level 1 (drift): the observed step is the step TMMConn's operators compute.
   Level 2 (viol) : ExactlyOnceInOrder, BoundedBuffer, HostileOnlyDrops on what was observed. *)
EXTENDS TMMConn, TraceKit

Trace == LoadTrace("trace.ndjson")

VARIABLES l, cfg, mode, s, insync, r, acc, pendc, pos, ptr, missing, exp, hwo, viol, drift
vars == <<l, cfg, mode, s, insync, r, acc, pendc, pos, ptr, missing, exp, hwo, viol, drift>>

NoCfg == [chans |-> <<1>>, qcap |-> (1 :> 1), rcap |-> (1 :> 1), payload |-> 1, slack |-> 0]
Init == /\ l = 1 /\ cfg = NoCfg /\ mode = "none" /\ s = NewSender(NoCfg) /\ insync = TRUE
        /\ r = NewReceiver(NoCfg)
        /\ acc = (1 :> << >>) /\ pendc = (1 :> FALSE) /\ pos = (1 :> [idx |-> 1, off |-> 0])
        /\ ptr = (1 :> 1) /\ missing = (1 :> {}) /\ exp = << >> /\ hwo = (1 :> 0)
        /\ viol = {} /\ drift = {}

MkCfg(c) ==
  LET ids == {c.chans[i] : i \in DOMAIN c.chans}
      ix(x) == CHOOSE i \in DOMAIN c.chans : c.chans[i] = x
  IN [chans |-> c.chans, qcap |-> [x \in ids |-> c.qcap[ix(x)]], rcap |-> [x \in ids |-> c.rcap[ix(x)]],
      payload |-> c.payload, slack |-> c.slack]

D(what)      == [l |-> l, what |-> what]
V(inv, cls)  == [l |-> l, inv |-> inv, class |-> cls]
ProjS(ss)    == [q       |-> [i \in DOMAIN cfg.chans |-> Len(ss.q[cfg.chans[i]])],
                 sending |-> [i \in DOMAIN cfg.chans |-> Len(ss.sending[cfg.chans[i]])],
                 qsize   |-> [i \in DOMAIN cfg.chans |-> ss.qsize[cfg.chans[i]]]]
ObsS(o)      == [q |-> o.q, sending |-> o.sending, qsize |-> o.qsize]
Lockstep     == mode = "lockstep"

StepReset(e) ==
  LET c == MkCfg(e.cfg) IN
  /\ cfg' = c /\ mode' = e.mode
  /\ s' = NewSender(c) /\ insync' = TRUE /\ r' = NewReceiver(c)
  /\ acc' = [x \in CS(c) |-> << >>] /\ pendc' = [x \in CS(c) |-> FALSE]
  /\ pos' = [x \in CS(c) |-> [idx |-> 1, off |-> 0]]
  /\ ptr' = [x \in CS(c) |-> 1] /\ missing' = [x \in CS(c) |-> {}] /\ exp' = << >> /\ hwo' = [x \in CS(c) |-> 0]
  /\ UNCHANGED <<viol, drift>>

StepSend(e) ==
  /\ IF e.ch \in CS(cfg)
     THEN acc' = [acc EXCEPT ![e.ch] = Append(@, e.m)] /\ pendc' = [pendc EXCEPT ![e.ch] = TRUE]
     ELSE UNCHANGED <<acc, pendc>>
  /\ UNCHANGED <<cfg, mode, s, insync, r, pos, ptr, missing, exp, hwo, viol, drift>>

StepSendRes(e) ==
  IF e.ch \notin CS(cfg) \/ ~pendc[e.ch]
  THEN /\ drift' = drift \cup FailIf(e.ok, D("Send accepted on an unknown channel"))
       /\ UNCHANGED <<cfg, mode, s, insync, r, acc, pendc, pos, ptr, missing, exp, hwo, viol>>
  ELSE
  LET c  == e.ch
      m  == acc[c][Len(acc[c])]
      en == Enqueue(cfg, s, e.up_a, c, m)
  IN /\ pendc' = [pendc EXCEPT ![c] = FALSE]
     /\ acc' = IF e.ok THEN acc ELSE [acc EXCEPT ![c] = SubSeq(@, 1, Len(@) - 1)]
     /\ s' = IF Lockstep THEN en.s ELSE s
     /\ drift' = drift \cup FailIf(Lockstep /\ insync /\ (en.ok # e.ok \/ ProjS(en.s) # ObsS(e.snd)),
                                   D("Send/TrySend differs from spec"))
     \* a message whose Send was refused must never reach the receiver
     /\ viol' = viol \cup FailIf(~e.ok /\ ptr[c] > Len(acc[c]), V("ExactlyOnceInOrder", "delivered_but_refused"))
     /\ ptr' = IF ~e.ok /\ ptr[c] > Len(acc[c]) THEN [ptr EXCEPT ![c] = Len(acc[c])] ELSE ptr
     /\ UNCHANGED <<cfg, mode, insync, r, pos, missing, exp, hwo>>

\* lockstep: one sendPacketMsg call; the channel the code picked is recovered from the projection
StepStep(e) ==
  LET pl   == Pull(cfg, s)
      cand == {c \in pl.pend : ProjS(EmitPacket(cfg, pl.s, c).s) = ObsS(e.snd)}
  IN /\ IF pl.pend = {}
        THEN /\ s' = pl.s
             /\ insync' = (insync /\ (e.exhausted \/ ~e.up_a) /\ ProjS(pl.s) = ObsS(e.snd))
        ELSE IF cand # {}
             THEN /\ s' = EmitPacket(cfg, pl.s, CHOOSE c \in cand : TRUE).s
                  /\ insync' = (insync /\ (~e.exhausted \/ ~e.up_a))
             ELSE /\ s' = pl.s /\ insync' = FALSE
     /\ drift' = drift \cup FailIf(insync /\ ~insync', D("sendPacketMsg differs from spec"))
     /\ UNCHANGED <<cfg, mode, r, acc, pendc, pos, ptr, missing, exp, hwo, viol>>

Feed(p) ==
  LET x == RecvPacket(cfg, r, p) IN
  /\ r' = x.r
  /\ exp' = IF x.out.kind = "deliver" THEN Append(exp, [ch |-> x.out.ch, m |-> x.out.msg]) ELSE exp

\* a packet on the wire: must be the next packet of that channel's accepted message stream
StepPkt(e) ==
  LET p == e.pkt
      c == p.ch
      known == c \in CS(cfg)
      have  == known /\ pos[c].idx <= Len(acc[c])
      want  == StreamPacket(cfg, c, acc[c], pos[c].idx, pos[c].off)
  IN /\ drift' = drift \cup FailIf(~have \/ (have /\ want # p), D("packet on the wire differs from spec"))
     /\ pos' = IF ~known THEN pos
               ELSE IF p.eof THEN [pos EXCEPT ![c] = [idx |-> @.idx + 1, off |-> 0]]
               ELSE [pos EXCEPT ![c].off = @ + Len(p.data)]
     /\ Feed(p)
     /\ UNCHANGED <<cfg, mode, s, insync, acc, pendc, ptr, missing, hwo, viol>>

StepInject(e) ==
  /\ Feed(IF e.pkt.t = "msg" /\ ~e.fits THEN [e.pkt EXCEPT !.t = "oversize"] ELSE e.pkt)
  /\ UNCHANGED <<cfg, mode, s, insync, acc, pendc, pos, ptr, missing, hwo, viol, drift>>

\* Deliveries are matched against the accepted stream of the channel: ptr[c] is the index of the
\* next accepted message not yet delivered, missing[c] the indices skipped so far.  After a
\* mismatch the matcher re-aligns, so that one defect is reported once, at the step that shows it.
AllEmpty(c, js) == \A j \in js : acc[c][j] = << >>
StepDlv(e) ==
  LET c == e.ch
      m == e.m
      known == c \in CS(cfg)
      n == IF known THEN Len(acc[c]) ELSE 0
      k == IF known THEN ptr[c] ELSE 1
      good  == known /\ k <= n /\ acc[c][k] = m
      later == IF known THEN {j \in (k + 1)..n : acc[c][j] = m} ELSE {}
      late  == IF known THEN {j \in missing[c] : acc[c][j] = m} ELSE {}
      jl == IF later # {} THEN CHOOSE j \in later : \A i \in later : j <= i ELSE 0
      cls == IF ~known THEN "unknown_channel"
             ELSE IF later # {} THEN (IF AllEmpty(c, k..(jl - 1)) THEN "empty_message_skipped" ELSE "skipped_or_reordered")
             ELSE IF late # {} THEN "delivered_late"
             ELSE IF \E j \in 1..(k - 1) : j <= n /\ acc[c][j] = m THEN "duplicate"
             ELSE IF \E d \in CS(cfg) \ {c} : \E j \in DOMAIN acc[d] : acc[d][j] = m THEN "cross_channel"
             ELSE IF k > n THEN "never_accepted" ELSE "modified"
  IN /\ ptr' = IF good THEN [ptr EXCEPT ![c] = k + 1]
               ELSE IF later # {} THEN [ptr EXCEPT ![c] = jl + 1] ELSE ptr
     /\ missing' = IF good \/ ~known THEN missing
                   ELSE IF later # {} THEN [missing EXCEPT ![c] = @ \cup (k..(jl - 1))]
                   ELSE IF late # {} THEN [missing EXCEPT ![c] = @ \ {CHOOSE j \in late : TRUE}] ELSE missing
     /\ hwo' = IF known /\ Len(m) > hwo[c] THEN [hwo EXCEPT ![c] = Len(m)] ELSE hwo
     /\ exp' = IF exp # << >> THEN Tail(exp) ELSE exp
     /\ drift' = drift \cup FailIf(exp = << >> \/ (exp # << >> /\ Head(exp) # [ch |-> c, m |-> m]),
                                   D("delivery differs from spec"))
     /\ viol' = viol
          \cup FailIf(mode # "hostile" /\ ~good, V("ExactlyOnceInOrder", cls))
          \cup FailIf(known /\ Len(m) > cfg.rcap[c], V("BoundedBuffer", "message_exceeds_capacity"))
     /\ UNCHANGED <<cfg, mode, s, insync, r, acc, pendc, pos>>

StepSync(e) ==
  LET obsr == [recving |-> e.recving, up |-> e.up, err |-> e.err, nerr |-> e.nerr]
      specr == [recving |-> [i \in DOMAIN cfg.chans |-> Len(r.recving[cfg.chans[i]])], up |-> r.up,
                err |-> (IF r.err = "reactor" THEN "none" ELSE r.err), nerr |-> r.nerr]
      over == {i \in DOMAIN cfg.chans : e.recving[i] > cfg.rcap[cfg.chans[i]]}
      drained == e.final /\ e.up /\ e.up_a /\ mode # "hostile" /\ \A c \in CS(cfg) : ~pendc[c]
      lostOf(c) == missing[c] \cup (ptr[c]..Len(acc[c]))
      lost == {c \in CS(cfg) : lostOf(c) # {}}
  IN /\ drift' = drift
          \cup FailIf(obsr # specr, D("receiver state differs from spec"))
          \cup FailIf(exp # << >>, D("a delivery predicted by the spec was not observed"))
          \cup FailIf(Lockstep /\ insync /\ ProjS(s) # ObsS(e.snd), D("sender state differs from spec"))
     /\ viol' = viol
          \cup FailIf(over # {}, V("BoundedBuffer", "recving_exceeds_capacity"))
          \cup FailIf(e.barrier = "timeout", V("HostileOnlyDrops", "wedge_receive_routine"))
          \cup FailIf(e.honest \notin {"ok", "n/a"}, V("HostileOnlyDrops", "honest_peer_affected"))
          \cup FailIf(e.nerr > 1, V("HostileOnlyDrops", "onerror_twice"))
          \cup FailIf(e.up /\ e.err # "none", V("HostileOnlyDrops", "error_without_stop"))
          \cup FailIf(drained /\ lost # {},
                      V("ExactlyOnceInOrder",
                        IF \A c \in lost : AllEmpty(c, lostOf(c)) THEN "empty_message_lost" ELSE "lost"))
     /\ exp' = << >>
     /\ insync' = (insync /\ (~Lockstep \/ ProjS(s) = ObsS(e.snd)))
     /\ UNCHANGED <<cfg, mode, s, r, acc, pendc, pos, ptr, missing, hwo>>

StepCrash(e) ==
  /\ viol' = viol \cup {V("HostileOnlyDrops", "process_crash")}
  /\ UNCHANGED <<cfg, mode, s, insync, r, acc, pendc, pos, ptr, missing, exp, hwo, drift>>

Step ==
  /\ l <= Len(Trace)
  /\ LET e == Trace[l] IN
       CASE e.ev = "Reset"   -> StepReset(e)
         [] e.ev = "Send"    -> StepSend(e)
         [] e.ev = "SendRes" -> StepSendRes(e)
         [] e.ev = "Step"    -> StepStep(e)
         [] e.ev = "Pkt"     -> StepPkt(e)
         [] e.ev = "Inject"  -> StepInject(e)
         [] e.ev = "Dlv"     -> StepDlv(e)
         [] e.ev = "Sync"    -> StepSync(e)
         [] e.ev = "Crash"   -> StepCrash(e)
  /\ l' = l + 1

Finish ==
  /\ l = Len(Trace) + 1
  /\ WriteVerdict("verdict.json", Len(Trace), viol, drift)
  /\ l' = l + 1
  /\ UNCHANGED <<cfg, mode, s, insync, r, acc, pendc, pos, ptr, missing, exp, hwo, viol, drift>>

Next == Step \/ Finish
=============================================================================
