CONSTANTS
  MaxTotal = 250000000
  IntMax = 2000000007
  Checkpoint = 100000
  Weak_ApplyBeforeVerify = FALSE
  Weak_IgnoreMissingRemoval = FALSE
  Weak_NoResort = FALSE
  Weak_NoPenalty = FALSE
  Weak_PenaltyMulOverflow = FALSE
  Weak_NoRescale = FALSE
  Weak_NoCentre = FALSE
  Weak_TieHighAddr = FALSE
  Weak_FloorDiv = FALSE
  Weak_RoundSkipSingleIncrement = FALSE
  Weak_LoadSingleIncrement = FALSE
  Weak_LoadNoIncrement = FALSE
  Weak_LoadOffByOne = FALSE
  Weak_PruneDropsLastChanged = FALSE
  Weak_PruneDropsCheckpoint = FALSE
  Weak_NoCheckpointRecord = FALSE
  Weak_RecoveryCopyDropsValUpdates = FALSE
  Weak_PruneStatesOneTooFar = FALSE
INIT Init
NEXT Next
CHECK_DEADLOCK FALSE
