------------------------- MODULE TMPeerUpgradeTrace -------------------------
(* Trace validation for C16 / IdentityBound: outcomes of the real
   p2p.MultiplexTransport.upgrade (harness/inpkg/p2p/zz_verif_c16_test.go) against
   TMPeerUpgrade.                                                                 *)
EXTENDS TMPeerUpgrade, TraceKit

Trace == LoadTrace("trace.ndjson")

VARIABLES l, viol, drift

Init == l = 1 /\ viol = {} /\ drift = {}

StepUpgrade(e) ==
  LET c   == [dialed |-> e.dialed, scOK |-> e.scOK, connKey |-> e.connKey, infoOK |-> e.infoOK,
              infoID |-> e.infoID, valid |-> e.valid, compat |-> e.compat]
      \* what the transport itself reports about an accepted peer
      obs == [c EXCEPT !.connKey = IF e.res = "ok" THEN e.obsConn ELSE @,
                       !.infoID  = IF e.res = "ok" THEN e.obsInfo ELSE @]
  IN /\ drift' = drift
           \cup FailIf(Upgrade(c) # e.res, [l |-> l, what |-> "upgrade outcome differs from spec: " \o Upgrade(c)])
           \cup FailIf(e.res = "ok" /\ (e.obsConn # e.connKey \/ e.obsInfo # e.infoID),
                       [l |-> l, what |-> "upgrade returned other identities than the remote used"])
           \cup FailIf(~SelfRefusedOn(c, e.res), [l |-> l, what |-> "a connection authenticated as our own key was accepted"])
     /\ viol' = viol
           \cup FailIf(~IdentityBoundOn(c, e.res), [l |-> l, inv |-> "IdentityBound", class |-> IdClass(c)])
           \cup FailIf(~IdentityBoundOn(obs, e.res), [l |-> l, inv |-> "IdentityBound", class |-> "reported:" \o IdClass(obs)])

Step ==
  /\ l <= Len(Trace)
  /\ StepUpgrade(Trace[l])
  /\ l' = l + 1

Finish ==
  /\ l = Len(Trace) + 1
  /\ WriteVerdict("verdict.json", Len(Trace), viol, drift)
  /\ l' = l + 1
  /\ UNCHANGED <<viol, drift>>

Next == Step \/ Finish
=============================================================================
