--------------------------- MODULE TMConsensusTrace ---------------------------
(* Trace validation for runs of real consensus.State objects (harness
   zz_verif_cons_test.go) against TMConsensusNode.

   level 1 (drift): the observed post-state and outputs of every handleMsg /
                    handleTimeout call equal what the spec's operators compute from the
                    observed pre-state and the observed input;
   level 2 (viol) : the properties C01 (agreement, valid + certified decisions),
                    C02 (no equivocation, justified precommits, lock respected) and the
                    C03 bound hold on the OBSERVED decisions, signatures and rounds.
   The logged post-state is installed after every step, so the rest of the trace is
   checked from what the code really did.                                            *)
EXTENDS TMConsensusNode, TraceKit

CONSTANT Corr        \* nodes that appear in the trace

Trace == LoadTrace("trace.ndjson")

VARIABLES l, st, dec, sgn, gst, viol, drift, wlog
vars == <<l, st, dec, sgn, gst, viol, drift, wlog>>

Init ==
  /\ l = 1
  /\ st = [n \in Corr |-> InitNode]
  /\ dec = [n \in Corr |-> Nil]
  /\ sgn = [n \in Corr |-> << >>]
  /\ gst = [on |-> FALSE, round |-> 0]
  /\ viol = {}
  /\ drift = {}
  /\ wlog = [n \in Corr |-> << >>]

SeqToSet(s) == {s[i] : i \in DOMAIN s}

\* observed vote set; the peers' +2/3 claims are not observable (unexported) and are taken from `spec`
ObsVS(o, specvs) == [votes |-> o.votes, by |-> {<<x[1], x[2]>> : x \in SeqToSet(o.by)}, pm |-> specvs.pm, maj |-> o.maj]

\* observed projection -> node record (fields the projection cannot see are taken from `spec`)
ObsNode(p, spec) ==
  [ height |-> p.height, round |-> p.round, step |-> p.step,
    lockedR |-> p.lockedR, lockedV |-> p.lockedV, validR |-> p.validR, validV |-> p.validV,
    prop |-> [r |-> p.prop.r, v |-> p.prop.v, pol |-> p.prop.pol],
    propBlock |-> p.propBlock, partsHdr |-> p.partsHdr, ttp |-> p.ttp, commitR |-> p.commitR,
    pv |-> [r \in Rounds |-> ObsVS(p.pv[r + 1], spec.pv[r])], pc |-> [r \in Rounds |-> ObsVS(p.pc[r + 1], spec.pc[r])],
    tracked |-> SeqToSet(p.tracked) \cap Rounds,
    catchup |-> spec.catchup, lastCommit |-> spec.lastCommit,
    decision |-> p.decision, panic |-> p.panic, stuck |-> FALSE, out |-> << >> ]

OutSeq(o) == [i \in DOMAIN o |-> Msg(o[i].t, o[i].r, o[i].v, o[i].pol)]

\* ---------------------------------------------------------------- C02 on observed signatures
Released(e) == SelectSeq(e.signs, LAMBDA x : x.ok)

\* most recent non-nil precommit of the node in a round < r  (as [r, v]) or [r |-> -1, v |-> Nil]
RECURSIVE LastLock(_, _)
LastLock(sq, r) ==
  IF sq = << >> THEN [r |-> -1, v |-> Nil]
  ELSE LET x == sq[Len(sq)]
           rest == LastLock(SubSeq(sq, 1, Len(sq) - 1), r)
       IN IF x.t = "precommit" /\ x.v # Nil /\ x.r < r /\ x.r > rest.r THEN [r |-> x.r, v |-> x.v] ELSE rest

\* the prevote quorums the node holds, computed from the OBSERVED vote sets with the validators' real powers (not taken
\* from the code's own maj23 bookkeeping, which is part of what is being judged): [r, v] such that the prevotes for v in
\* round r come from validators holding more than two thirds of the power.  Judged on the state before and after the
\* step in which the signature was made (a step that commits leaves the vote sets of the next height behind)
ObsPolkas(nd) ==
  UNION {{[r |-> r, v |-> w] :
             w \in {u \in {x[1] : x \in nd.pv[r].by} :
                       StrictQuorum(SumPower({y[2] : y \in {z \in nd.pv[r].by : z[1] = u}} \cap Vals))}} : r \in Rounds}

SignViolations(n, prior, x, line, polk) ==
  LET lock == LastLock(prior, x.r)
  IN   FailIf(\E i \in DOMAIN prior : prior[i].t = x.t /\ prior[i].r = x.r /\ (prior[i].v # x.v \/ prior[i].pol # x.pol),
              [l |-> line, inv |-> "NoEquivocation", class |-> x.t])
  \cup FailIf(x.t = "precommit" /\ x.v # Nil /\ ~(\E h \in SeqToSet(x.held) : SameBlock(h, x.v)),
              [l |-> line, inv |-> "PrecommitJustified", class |-> "block not held"])
  \cup FailIf(x.t = "precommit" /\ x.v # Nil /\ ~([r |-> x.r, v |-> x.v] \in polk),
              [l |-> line, inv |-> "PrecommitJustified", class |-> "no polka in that round"])
  \cup FailIf(x.t = "prevote" /\ lock.v # Nil /\ ~SameBlock(x.v, lock.v)
                /\ ~(\E q \in polk : q.r > lock.r /\ q.r <= x.r /\ ~SameBlock(q.v, lock.v)),
              [l |-> line, inv |-> "LockRespected", class |-> "prevote against lock without newer polka"])
  \cup FailIf(x.t = "prevote" /\ x.v # Nil /\ ~(\E h \in SeqToSet(x.held) : SameBlock(h, x.v)),
              [l |-> line, inv |-> "PrevoteHeld", class |-> "prevoted a block it does not hold"])

RECURSIVE SignsViol(_, _, _, _, _)
SignsViol(n, prior, new, line, polk) ==
  IF new = << >> THEN {}
  ELSE SignViolations(n, prior, Head(new), line, polk) \cup SignsViol(n, Append(prior, Head(new)), Tail(new), line, polk)

\* ---------------------------------------------------------------- steps
StepReset(e) ==
  /\ st' = [n \in Corr |-> InitNode]
  /\ dec' = [n \in Corr |-> Nil]
  /\ sgn' = [n \in Corr |-> << >>]
  /\ gst' = [on |-> FALSE, round |-> 0]
  /\ drift' = drift \cup FailIf(
        \/ SeqToSet(e.vals) # Vals
        \/ \E v \in Vals : e.powers[v] # PowerOf[v]
        \/ \E r \in Rounds : e.proposers[r + 1] # Proposer(r)
        \/ SeqToSet(e.corr) # Corr,
        [l |-> l, what |-> "run configuration differs from the spec constants (validators, powers, proposer rotation)", fields |-> << >>])
  /\ wlog' = [n \in Corr |-> << >>]
  /\ UNCHANGED viol

StepNode(e) ==
  LET n    == e.n
      pre  == st[n]
      s2   == IF e.ev = "Timeout" THEN HandleTimeout(n, pre, e.k, e.m.r)
              ELSE HandleMsg(n, pre, e.m, e.peer)
      post == ObsNode(e.post, s2)
      rel  == Released(e)
  IN /\ st' = [st EXCEPT ![n] = post]
     /\ sgn' = [sgn EXCEPT ![n] = sgn[n] \o rel]
     /\ drift' = drift
          \* a step in which the real code panicked leaves a half-updated object (deferred functions run
          \* while unwinding): only the fact and the reason of the panic are compared for such steps
          \cup FailIf(e.post.panic # "none" /\ s2.panic # e.post.panic,
                      [l |-> l, what |-> "the code panicked where the spec does not (or for another reason): " \o e.post.panic,
                       fields |-> <<"panic">>])
          \cup FailIf(e.post.panic = "none" /\ post # ClearOut(s2), [l |-> l, what |-> "post-state differs from spec (" \o e.ev \o ")",
                                              fields |-> SetToSeq({f \in DOMAIN post : post[f] # ClearOut(s2)[f]})])
          \cup FailIf(e.post.panic = "none" /\ OutSeq(e.out) # (IF e.nosched THEN SelectSeq(s2.out, LAMBDA x : x.t # "sched") ELSE s2.out), [l |-> l, what |-> "outputs differ from spec (" \o e.ev \o ")", fields |-> <<"out">>])
     /\ viol' = viol
          \cup SignsViol(n, sgn[n], rel, l, ObsPolkas(st[n]) \cup ObsPolkas(post))
          \cup FailIf(e.post.panic # "none", [l |-> l, inv |-> "NoPanic", class |-> e.post.panic])
          \* C03: after GST no node may run more than the bound ahead of where it was
          \cup FailIf(gst.on /\ post.height = 1 /\ post.round > gst.round + e.bound,
                      [l |-> l, inv |-> "BoundedRounds", class |-> "round bound exceeded after GST"])
     \* what receiveRoutine writes to the WAL before it handles the input: every message and timeout.  A peer's +2/3
     \* claim is an input of receiveRoutine only if the reactor hands it over through the peer queue (e.logged, observed
     \* by the driver on the real Reactor.Receive); applied by the reactor directly it is in no log
     /\ wlog' = [wlog EXCEPT ![n] = IF e.m.t \in {"claim_prevote", "claim_precommit"} /\ ~e.logged THEN @
                                     ELSE Append(@, [ev |-> e.ev, m |-> e.m, peer |-> e.peer, k |-> e.k])]
     /\ UNCHANGED <<dec, gst>>

\* a node that has left the modelled rounds (possible only when something is already wrong, or in very long runs): its
\* steps are not compared any more, only the C03 bound is still evaluated on the observed round
OutOfRange(e) ==
  \/ st[e.n].round > MaxRound \/ e.post.round > MaxRound
  \/ (e.m.r > MaxRound)
  \/ \E i \in DOMAIN e.out : e.out[i].r > MaxRound
StepOut(e) ==
  /\ st' = [st EXCEPT ![e.n] = [st[e.n] EXCEPT !.round = IF e.post.round > MaxRound THEN e.post.round ELSE @]]
  /\ viol' = viol
       \cup FailIf(e.post.panic # "none", [l |-> l, inv |-> "NoPanic", class |-> e.post.panic])
       \cup FailIf(gst.on /\ e.post.height = 1 /\ e.post.round > gst.round + e.bound,
                   [l |-> l, inv |-> "BoundedRounds", class |-> "round bound exceeded after GST"])
  /\ drift' = drift \cup FailIf(st[e.n].round <= MaxRound, [l |-> l, what |-> "node left the modelled rounds", fields |-> <<"round">>])
  /\ UNCHANGED <<dec, sgn, gst, wlog>>

StepDecision(e) ==
  LET n == e.n IN
  /\ dec' = [dec EXCEPT ![n] = e.v]
  /\ viol' = viol
       \cup FailIf(\E o \in Corr : o # n /\ dec[o] # Nil /\ ~SameBlock(dec[o], e.v),
                   [l |-> l, inv |-> "Agreement", class |-> "two correct nodes decided different blocks"])
       \cup FailIf(~e.valid, [l |-> l, inv |-> "DecisionValid", class |-> "decided block fails ValidateBlock"])
       \* e.v is the BlockID (hash AND part-set header) under which the block was stored; "for exactly that block"
       \cup FailIf(e.commitFor # e.v \/ ~StrictQuorum(SumPower(SeqToSet(e.signers) \cap Vals)),
                   [l |-> l, inv |-> "DecisionCertified", class |-> "seen commit does not carry +2/3 valid precommits for the decided block"])
       \cup FailIf(st[n].decision # e.v, [l |-> l, inv |-> "StoreMatches", class |-> "stored block differs from decision"])
  /\ UNCHANGED <<st, sgn, gst, drift, wlog>>

\* ---------------------------------------------------------------- stop/start of a node (routine mode of the driver)
\* The new State object is rebuilt by catchupReplay: every logged input is handled again, in order, from the
\* initial state of the height; the own messages this produces are queued again.
RECURSIVE OutToQ(_, _)
OutToQ(me, out) ==
  IF out = << >> THEN << >> ELSE
  LET h == Head(out) IN
  IF h.t = "sched" THEN OutToQ(me, Tail(out))
  ELSE IF h.t = "proposal"
       THEN <<[t |-> "proposal", src |-> me, r |-> h.r, v |-> h.v, pol |-> h.pol],
              [t |-> "block", src |-> "-", r |-> -1, v |-> h.v, pol |-> -2]>> \o OutToQ(me, Tail(out))
  ELSE <<[t |-> h.t, src |-> me, r |-> h.r, v |-> h.v, pol |-> -2]>> \o OutToQ(me, Tail(out))

RECURSIVE ReplayLog(_, _, _)
ReplayLog(n, w, acc) ==
  IF w = << >> THEN acc ELSE
  LET x  == Head(w)
      s2 == IF x.ev = "Timeout" THEN HandleTimeout(n, acc.s, x.k, x.m.r) ELSE HandleMsg(n, acc.s, x.m, x.peer)
  IN ReplayLog(n, Tail(w), [s |-> ClearOut(s2), q |-> acc.q \o OutToQ(n, s2.out)])

StepRestart(e) ==
  LET n    == e.n
      rp   == ReplayLog(n, wlog[n], [s |-> InitNode, q |-> << >>])
      post == ObsNode(e.post, rp.s)
      rel  == Released(e)
  IN /\ st' = [st EXCEPT ![n] = post]
     /\ sgn' = [sgn EXCEPT ![n] = sgn[n] \o rel]
     /\ drift' = drift
          \cup FailIf(e.replayErr # "", [l |-> l, what |-> "catchupReplay failed: " \o e.replayErr, fields |-> << >>])
          \cup FailIf(e.post.panic = "none" /\ post # rp.s, [l |-> l, what |-> "state after restart differs from the replay of the logged inputs",
                                              fields |-> SetToSeq({f \in DOMAIN post : post[f] # rp.s[f]})])
          \cup FailIf(e.post.panic = "none" /\ e.inq # rp.q, [l |-> l, what |-> "own messages queued after restart differ from the replay of the logged inputs", fields |-> <<"inq">>])
     \* the signatures the replay asks for are signatures of the node like any other (C02; C04 is about the signer's side)
     /\ viol' = viol
          \cup SignsViol(n, sgn[n], rel, l, ObsPolkas(st[n]) \cup ObsPolkas(post))
          \cup FailIf(e.post.panic # "none", [l |-> l, inv |-> "NoPanic", class |-> e.post.panic])
     /\ UNCHANGED <<dec, gst, wlog>>

\* restore a state that an earlier, already validated run has reached through the same events
\* (runs generated from a state graph share prefixes; each distinct prefix is validated once)
StepSet(e) ==
  /\ st' = [st EXCEPT ![e.n] = ObsNode(e.post, [catchup |-> e.catchup, lastCommit |-> [r |-> -1, votes |-> [v \in Vals |-> None]],
                                                pv |-> [r \in Rounds |-> [pm |-> {<<x[1], x[2]>> : x \in SeqToSet(e.pmv[r + 1])}]],
                                                pc |-> [r \in Rounds |-> [pm |-> {<<x[1], x[2]>> : x \in SeqToSet(e.pmc[r + 1])}]]])]
  /\ sgn' = [sgn EXCEPT ![e.n] = e.signs]
  /\ dec' = [dec EXCEPT ![e.n] = e.dec]
  /\ UNCHANGED <<gst, viol, drift, wlog>>

\* C03: start of the synchronous suffix / verdict of the suffix executor
StepGST(e) ==
  /\ gst' = [on |-> TRUE, round |-> LET S == {st[n].round : n \in Corr} IN CHOOSE x \in S : \A y \in S : y <= x]
  /\ UNCHANGED <<st, dec, sgn, viol, drift, wlog>>

StepSyncEnd(e) ==
  /\ viol' = viol \cup FailIf(\E n \in Corr : dec[n] = Nil,
                              [l |-> l, inv |-> "Termination", class |-> "undecided after the synchronous suffix"])
  /\ UNCHANGED <<st, dec, sgn, gst, drift, wlog>>

Step ==
  /\ l <= Len(Trace)
  /\ LET e == Trace[l] IN
       CASE e.ev = "Reset"    -> StepReset(e)
         [] e.ev = "Decision" -> StepDecision(e)
         [] e.ev = "Set"      -> StepSet(e)
         [] e.ev = "GST"      -> StepGST(e)
         [] e.ev = "SyncEnd"  -> StepSyncEnd(e)
         [] e.ev = "Restart"  -> StepRestart(e)
         [] OTHER             -> IF OutOfRange(e) THEN StepOut(e) ELSE StepNode(e)
  /\ l' = l + 1

Finish ==
  /\ l = Len(Trace) + 1
  /\ WriteVerdict("verdict.json", Len(Trace), viol, drift)
  /\ l' = l + 1
  /\ UNCHANGED <<st, dec, sgn, gst, viol, drift, wlog>>

Next == Step \/ Finish
=============================================================================
