---------------------------- MODULE TMAbciLocalConform ----------------------------
(* Level 1 (conformance) for step-controlled runs of four real localClients sharing one mutex
   against TMAbciLocal; same scheme as TMAbciConform (search over the unlogged internal steps,
   high-water mark per run).                                                             *)
EXTENDS TMAbciLocal, TraceKit

Trace == LoadTrace("trace.ndjson")
Starts == {i \in DOMAIN Trace : Trace[i].ev = "Reset"}

VARIABLES l, run
cvars == <<l, run>>

Mark(k) == TLCSet(run, IF TLCGet(run) < k THEN k ELSE TLCGet(run))

CInit == Init /\ run \in Starts /\ l = run + 1 /\ TLCSet(run, run + 1)

SeqSet(q) == {q[i] : i \in DOMAIN q}
ProjOK(e) ==
  LET p == LProj IN
  /\ p.busy = SeqSet(e.busy)
  /\ p.inapp = e.inapp /\ p.incb = e.incb
  /\ p.atlock = {x.t : x \in {y \in SeqSet(e.inflight) : y.where = "Lock"}}
  /\ p.ncb = e.ncbE /\ e.ncbS = e.ncbE + Len(e.incb)

MatchEnv(a) ==
  CASE a.name = "StartCall"  -> a.call = ncalls + 1 /\ StartCall(a.conn, a.skind, a.gate)
    [] a.name = "ReleaseApp" -> ReleaseApp
    [] a.name = "ReleaseCb"  -> ReleaseCb
    [] OTHER -> FALSE

CNext ==
  /\ l <= Len(Trace) /\ Trace[l].ev # "Reset"
  /\ \/ /\ Internal /\ UNCHANGED cvars
     \/ /\ ~ENABLED Internal
        /\ \/ /\ Trace[l].ev = "Env" /\ MatchEnv(Trace[l].a)
           \/ /\ Trace[l].ev = "LObs" /\ ProjOK(Trace[l]) /\ UNCHANGED vars
        /\ l' = l + 1 /\ run' = run /\ Mark(l + 1)

CView == <<holder, cl, inapp, gated, cbopen, cbgated, Len(cbseq), ncalls, l, run>>
Post == JsonSerialize("conform.json", [marks |-> SetToSeq({[run |-> r, hw |-> TLCGet(r)] : r \in Starts})])
=============================================================================
