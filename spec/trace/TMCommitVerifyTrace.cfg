CONSTANTS
  NOf <- BNOf
  NAdd <- BNAdd
  NMul <- BNMul
  NDiv <- BNDiv
  NGt <- BNGt
  NMaxInt64 <- BNMaxInt64
  NMaxTotal <- BNMaxTotalVotingPower
  Weak_QuorumGE = FALSE
  Weak_LightCountsNil = FALSE
  Weak_NoDoubleSignCheck = FALSE
  Weak_SeenByCommitSlotRange = FALSE
  Weak_TrustsEncodedTotal = FALSE
  Weak_IncompleteIdSignsAsNil = FALSE
  Weak_NoBlockIDCheck = FALSE
  Weak_SignBytesIgnoreRound = FALSE
INIT Init
NEXT Next
CHECK_DEADLOCK FALSE
