--------------------------- MODULE TMFastSyncTrace ---------------------------
(* Trace validation for C13: runs of the REAL blockchain/v0 reactor + pool (all goroutines
   running) against mock peers, recorded by harness/inpkg/blockchain/v0/zz_verif_c13*_test.go.

   Every line carries the projected BlockPool ("pool").  Level 1 (drift): the logged pool
   must be what the design operators of TMFastSyncOps produce from the previously logged
   pool for this event, after the hidden steps the projection reveals (a peer vanished from
   pool.peers = removePeer; new requesters = makeNextRequester; a requester that has a peer
   now = requestRoutine picked it; pool.height advanced = PopRequest), and the decisions
   the code took (save / stop a peer for a validation error / panic at hand-over) must be
   the ones the spec takes on the observed blocks and commits.  Level 2 (viol): the
   properties of TMFastSync evaluated on the OBSERVED stores, stops and panics.        *)
EXTENDS TMFastSyncOps, TraceKit

Trace == LoadTrace("trace.ndjson")
\* validator powers per height as the harness generated the chain (same for the whole file)
TraceVals == Trace[1].vals
\* heights whose canonical commit carries a genuine nil precommit in its last slot
TraceNilAt == {Trace[1].nilAt[i] : i \in 1..Len(Trace[1].nilAt)}

VARIABLES
  l,
  tT,       \* the run's tip height
  honest,   \* the run's honest peers
  gp,       \* the previously logged pool (normalised)
  blocks,   \* id -> block record, from Response events
  gst,      \* node state reconstructed from Apply events
  gstore,   \* Seq of [id, seen] from Save events
  owed,     \* peers whose block was seen in a pair the spec refuses and who have not been stopped since
  failH,    \* heights of the refused pairs seen at the current pool.height (see StepStopPeer)
  wide,     \* [p, h] such that p has reported a range covering h at some point of the run
  kept,     \* [h, uid, p, n]: the requester of h holds block uid of peer p although p is out of the pool and
            \* disconnected and no redo is queued; n = environment steps (each preceded by a quiescence wait
            \* of the harness) this has been seen to last
  holder,   \* height -> the peer that delivered the block the requester of that height holds (from Response events)
  cands,    \* the pool states the reactor's IsCaughtUp may have seen: [honest, cu] of the pool logged at the
            \* last Tick (taken right before the reactor's own evaluation) and of every pool logged since
  hand,     \* [done, h, honestInPool] from the Handover event
  viol, drift

vars == <<l, tT, honest, gp, blocks, gst, gstore, owed, failH, wide, cands, holder, kept, hand, viol, drift>>

EmptyPool == [h |-> 1, req |-> << >>, peers |-> << >>, maxH |-> 0, np |-> 0]
Init ==
  /\ l = 1 /\ tT = 0 /\ honest = {} /\ gp = EmptyPool /\ blocks = << >>
  /\ gst = [h |-> 0, lastID |-> NoBID] /\ gstore = << >> /\ owed = {} /\ failH = {} /\ wide = {} /\ cands = {} /\ holder = << >> /\ kept = {}
  /\ hand = [done |-> FALSE, h |-> 0, honestInPool |-> FALSE]
  /\ viol = {} /\ drift = {}


VAt(h) == IF h >= 1 /\ h <= Len(TraceVals) THEN TraceVals[h] ELSE << >>

\* ------------------------------------------------------------ logged pool -> spec pool
\* blocks are named by uid (the complete bytes) in the pool projection
Unknown(uid, h) == [h |-> h, id |-> uid, uid |-> uid, lc |-> NoCommit, valid |-> FALSE]
BlockById(uid, h) ==
  IF uid = "nil" THEN NilBlk
  ELSE IF uid \in DOMAIN blocks THEN blocks[uid]
  ELSE Unknown(uid, h)

PoolOfLog(lp, tbl) ==
  LET ps == {lp.peers[i].p : i \in 1..Len(lp.peers)}
      pr(p) == CHOOSE i \in 1..Len(lp.peers) : lp.peers[i].p = p
      hs == {lp.req[i].h : i \in 1..Len(lp.req)}
      rq(h) == lp.req[CHOOSE i \in 1..Len(lp.req) : lp.req[i].h = h]
      \* a requester still naming a peer that is no longer in pool.peers, or with a redo queued, has
      \* been told to redo and is about to reset (bpRequester.redo -> requestRoutine -> reset)
      gone(h) == rq(h).peer = Nil \/ rq(h).peer \notin ps \/ rq(h).redo
      req == [h \in hs |->
                 IF gone(h) THEN ReqEmpty
                 ELSE [peer |-> rq(h).peer,
                       blk |-> IF rq(h).blk = "nil" THEN NilBlk
                               ELSE IF rq(h).blk \in DOMAIN tbl THEN tbl[rq(h).blk]
                               ELSE Unknown(rq(h).blk, h),
                       \* (the projection has no sender: level 1 takes the owner; who really delivered a block
                       \* is kept in `holder` from the Response events and judged at level 2)
                       from |-> IF rq(h).blk = "nil" THEN Nil ELSE rq(h).peer,
                       prev |-> Nil]]
  IN [h |-> lp.h, maxH |-> lp.maxH,
      \* bpPeer.numPending is incremented under the pool's lock when the peer is picked, the requester
      \* stores the peer id a moment later: the logged per-peer counter may run ahead of the requesters
      \* that name the peer.  Level 1 compares the requesters; the raw counter is checked in PeerCounterOK.
      peers |-> [p \in ps |-> [base |-> lp.peers[pr(p)].base, height |-> lp.peers[pr(p)].height, to |-> lp.peers[pr(p)].to,
                               np |-> Cardinality({h \in hs : req[h].peer = p /\ req[h].blk = NilBlk})]],
      req |-> req,
      \* BlockPool.numPending as the code holds it, plus the +1 each pending reset of a requester
      \* that still shows its block is about to add
      np |-> lp.np + Cardinality({h \in hs : gone(h) /\ rq(h).blk # "nil"})]

\* per-peer counters re-derived from the requesters (see PoolOfLog)
NormPeers(pool) ==
  [pool EXCEPT !.peers = [p \in DOMAIN pool.peers |->
      [pool.peers[p] EXCEPT !.np = Cardinality({h \in Blockless(pool) : pool.req[h].peer = p})]]]

\* the raw per-peer counter: at least the blockless requesters that name the peer, at most the limit
PeerCounterOK(lp) ==
  \A i \in 1..Len(lp.peers) :
     /\ lp.peers[i].np <= PerPeer
     /\ lp.peers[i].np >= Cardinality({j \in 1..Len(lp.req) : lp.req[j].peer = lp.peers[i].p /\ lp.req[j].blk = "nil" /\ ~lp.req[j].redo})

\* ------------------------------------------------------------ hidden steps revealed by the projection
RECURSIVE MakeUpTo(_, _)
MakeUpTo(pool, n) ==
  IF Cardinality(ReqHeights(pool)) < n /\ CanMakeRequester(pool) THEN MakeUpTo(MakeRequester(pool), n) ELSE pool

RECURSIVE PickAll(_, _, _)
PickAll(pool, target, hs) ==
  IF hs = {} THEN pool
  ELSE LET h == CHOOSE x \in hs : TRUE
           p == IF h \in ReqHeights(target) THEN target.req[h].peer ELSE Nil
           \* (the range is checked under the pool's lock, the peer id is stored by the requester
           \* afterwards: the range may have been narrowed in between, see StepRequest)
           can == p # Nil /\ h \in ReqHeights(pool) /\ pool.req[h].peer = Nil /\ p \in DOMAIN pool.peers
       IN PickAll(IF can THEN Pick(pool, h, p) ELSE pool, target, hs \ {h})

Infer(pool, target) ==
  LET a == PoolRemoveAll(pool, DOMAIN pool.peers \ DOMAIN target.peers)
      b == IF target.h = a.h + 1 /\ a.h \in ReqHeights(a) THEN PopRequest(a) ELSE a
      c == MakeUpTo(b, Cardinality(ReqHeights(target)))
  IN PickAll(c, target, ReqHeights(c))

\* ------------------------------------------------------------ the spec's decision on an observed pair
Accepts(st, first, second) ==
  LET pows == VAt(first.h)  lastPows == VAt(first.h - 1) IN
  /\ VerifyLight(pows, BID(first), first.h, second.lc)
  /\ VerifySeen(pows, BID(first), first.h, second.lc)
  /\ ValidateBlock(st, lastPows, first)

\* (between SaveBlock and ApplyBlock the pool is already popped while the state is not yet
\* advanced: no decision is taken in that window)
PairRefused(pool, st) == st.h = pool.h - 1 /\ HasTwo(pool) /\ ~Accepts(st, First(pool), Second(pool))

\* ------------------------------------------------------------ events
D(what) == [l |-> l, what |-> what]
V(inv, class) == [l |-> l, inv |-> inv, class |-> class]

\* common tail of every event with a logged pool: level-1 comparison, install, owed
\* mid: the pool right after the event's own effect, before the reactor's reaction that the
\* projection may already include (a pair completed by a Response can be refused and redone
\* before the harness gets to read the pool)
InstallM(e, expected, tbl, st, extraDrift, extraViol, stoppedNow, mid) ==
  LET lp == PoolOfLog(e.pool, tbl)
      alive == Range(e.pool.sw)
      midRefused == PairRefused(mid, st) /\ ~hand.done
      \* raw logged requesters: which heights hold a block right now
      held == {e.pool.req[i].h : i \in {j \in 1..Len(e.pool.req) : e.pool.req[j].blk # "nil"}}
      \* the accepted block of this very event (a Response whose block now sits in the requester it met)
      took == e.ev = "Response" /\ e.pre.blk = "nil"
              /\ \E i \in 1..Len(e.pool.req) : e.pool.req[i].h = e.blk.h /\ e.pool.req[i].blk = e.blk.uid
      hold2 == [h \in (DOMAIN holder \cap held) \cup (IF took THEN {e.blk.h} ELSE {}) |->
                  IF took /\ h = e.blk.h THEN e.p ELSE holder[h]]
      \* "the request is retried elsewhere": removePeer redoes EVERY requester of the removed peer (a redo is
      \* queued under the pool's lock); a block of a peer that is out of the pool and disconnected, with no
      \* redo queued, that survives two further environment steps was not redone
      rawPeers == {e.pool.peers[i].p : i \in 1..Len(e.pool.peers)}
      stale == {[h |-> e.pool.req[i].h, uid |-> e.pool.req[i].blk, p |-> e.pool.req[i].peer] :
                  i \in {j \in 1..Len(e.pool.req) : /\ e.pool.req[j].blk # "nil" /\ ~e.pool.req[j].redo
                                                     /\ e.pool.req[j].peer # "nil"
                                                     /\ e.pool.req[j].peer \notin rawPeers
                                                     /\ e.pool.req[j].peer \notin alive}}
      envStep == e.ev \in {"Join", "Status", "Response", "NoBlock", "Timeout", "Retry"}
      kept2 == {[h |-> x.h, uid |-> x.uid, p |-> x.p,
                 n |-> IF \E k \in kept : k.h = x.h /\ k.uid = x.uid /\ k.p = x.p
                       THEN (CHOOSE k \in kept : k.h = x.h /\ k.uid = x.uid /\ k.p = x.p).n + (IF envStep THEN 1 ELSE 0)
                       ELSE 0] : x \in stale}
      keptViol == IF hand.done THEN {} ELSE {k \in kept2 : k.n = 2 /\ envStep}
      \* the peers that SENT the blocks of a pair
      senders(pool) == {hold2[h] : h \in {pool.h, pool.h + 1} \cap DOMAIN hold2}
      \* (after the hand-over the pool is stopped: nothing is decided any more)
      newOwed == (IF PairRefused(lp, st) /\ ~hand.done /\ e.ev # "Handover" THEN (FailPeers(lp) \cup senders(lp)) \cap alive ELSE {})
                 \cup (IF midRefused THEN (FailPeers(mid) \cup senders(mid)) \cap alive ELSE {})
  IN /\ gp' = lp
     /\ drift' = drift \cup extraDrift
                 \cup FailIf(lp \notin {NormPeers(x) : x \in expected},
                             D(IF \E x \in expected : [NormPeers(x) EXCEPT !.np = lp.np] = lp
                               THEN "numPending after " \o e.ev \o " differs from the spec's (counter leak)"
                               ELSE "pool after " \o e.ev \o " differs from the spec's"))
                 \cup FailIf(~PendingExact(lp), D("numPending is not the number of requesters without a block"))
                 \cup FailIf(~PeerCounterOK(e.pool), D("a peer's numPending is below the requests it owes or above the limit"))
     /\ viol' = viol \cup extraViol
                \cup FailIf(keptViol # {}, V("RetriedElsewhere", "block-kept"))
     /\ holder' = hold2
     /\ kept' = kept2
     /\ owed' = (owed \ stoppedNow) \cup newOwed
     /\ LET c == [honest |-> (DOMAIN lp.peers \cap honest) # {}, cu |-> IsCaughtUp(lp)] IN
          cands' = IF e.ev = "Tick" THEN {c} ELSE IF cands = {} THEN {} ELSE cands \cup {c}
     /\ failH' = (IF PairRefused(lp, st) THEN {lp.h, lp.h + 1} ELSE {})
                 \cup (IF midRefused THEN {mid.h, mid.h + 1} ELSE {}) \cup {h \in failH : h >= lp.h}

Install(e, expected, tbl, st, extraDrift, extraViol, stoppedNow) ==
  InstallM(e, expected, tbl, st, extraDrift, extraViol, stoppedNow, EmptyPool)

StepReset(e) ==
  /\ tT' = e.T
  /\ honest' = {e.peers[i].p : i \in {j \in 1..Len(e.peers) : e.peers[j].honest}}
  /\ gp' = EmptyPool /\ blocks' = << >>
  /\ gst' = [h |-> 0, lastID |-> NoBID] /\ gstore' = << >> /\ owed' = {} /\ failH' = {} /\ wide' = {} /\ cands' = {} /\ holder' = << >> /\ kept' = {}
  /\ hand' = [done |-> FALSE, h |-> 0, honestInPool |-> FALSE]
  /\ UNCHANGED <<viol, drift>>

StepJoin(e) ==
  /\ Install(e, {Infer(gp, PoolOfLog(e.pool, blocks))}, blocks, gst, {}, {}, {e.p})
  /\ UNCHANGED <<tT, honest, blocks, gst, gstore, hand, wide>>

StepStatus(e) ==
  LET lp == PoolOfLog(e.pool, blocks)
      pre == PoolRemoveAll(gp, DOMAIN gp.peers \ (DOMAIN lp.peers \cup {e.p}))
      \* requesters may have picked the peer under its OLD range before this status arrived
      early == PickAll(MakeUpTo(pre, Cardinality(ReqHeights(lp))), lp, ReqHeights(lp))
  IN /\ Install(e, {Infer(SetPeerRange(pre, e.p, e.base, e.height), lp),
                    Infer(SetPeerRange(early, e.p, e.base, e.height), lp)}, blocks, gst, {}, {}, {})
     /\ wide' = wide \cup {[p |-> e.p, h |-> h] : h \in e.base..e.height}
     /\ UNCHANGED <<tT, honest, blocks, gst, gstore, hand>>

StepRequest(e) ==
  LET lp == PoolOfLog(e.pool, blocks)
      x  == Infer(gp, lp)
      \* (a requester may already have been reset again when its request reaches the peer: a redo
      \* queued for an earlier incarnation of the same peer id -- redoCh -- is honoured late)
      \* pickIncrAvailablePeer checks the range under the pool's lock, the requester stores the
      \* peer id after releasing it: a status that narrows the range can slip in between
      \* RetryTimeout / LostRedo (deviations of the code): a requester without a block may re-pick at any
      \* time -- its 30 s retry timer fired (requestRetrySeconds), which also heals a requester whose
      \* peer was removed before the requester had stored the peer id (removePeer finds nobody to redo)
      forced == IF e.h \in ReqHeights(x) /\ x.req[e.h].blk = NilBlk THEN [x EXCEPT !.req[e.h].peer = e.p] ELSE x
  IN /\ Install(e, {x, forced}, blocks, gst,
                FailIf(e.p \in DOMAIN lp.peers /\ ~(e.h \in ReqHeights(x) /\ (x.req[e.h].blk = NilBlk \/ x.req[e.h].peer = e.p)),
                       D("Request for a height whose requester holds a block or does not exist"))
                \cup FailIf([p |-> e.p, h |-> e.h] \notin wide, D("Request to a peer that never reported that height")), {}, {})
     /\ UNCHANGED <<tT, honest, blocks, gst, gstore, hand, wide>>

StepResponse(e) ==
  LET b   == e.blk
      tbl == IF b.uid \in DOMAIN blocks THEN blocks ELSE [x \in DOMAIN blocks \cup {b.uid} |-> IF x = b.uid THEN b ELSE blocks[x]]
      lp  == PoolOfLog(e.pool, tbl)
      x   == Infer(gp, lp)
      \* the requester the block met, as the harness read it under the pool's lock
      met == IF e.pre.peer = "none" THEN x
             ELSE [x EXCEPT !.req = [h \in ReqHeights(x) \cup {b.h} |->
                      IF h = b.h THEN [peer |-> e.pre.peer, blk |-> BlockById(e.pre.blk, b.h),
                                       from |-> IF e.pre.blk = "nil" THEN Nil ELSE e.pre.peer, prev |-> Nil]
                      ELSE x.req[h]]]
      r   == AddBlock(met, e.p, b)
      gen == IF e.kind = "H" THEN CanonBlock(b.h)
             ELSE IF e.kind = "heightUp" THEN CanonBlock(e.h + 1)
             ELSE IF e.kind = "heightDown" THEN CanonBlock(e.h - 1)
             ELSE BlockOfKind(e.kind, e.h)
      \* the real validateBlock on the block against the canonical state before it
      vbSpec == ValidateBlock([h |-> b.h - 1, lastID |-> IF b.h = 1 THEN NoBID ELSE CanonBID(b.h - 1)], VAt(b.h - 1), b)
      \* the requester the block met had no block, now holds this one -- and neither before nor after the call
      \* is the sender the peer that requester is asking
      postPeer == IF \E i \in 1..Len(e.pool.req) : e.pool.req[i].h = b.h
                  THEN e.pool.req[CHOOSE i \in 1..Len(e.pool.req) : e.pool.req[i].h = b.h].peer ELSE "none"
      tookIt == e.pre.blk = "nil" /\ \E i \in 1..Len(e.pool.req) : e.pool.req[i].h = b.h /\ e.pool.req[i].blk = b.uid
  IN /\ blocks' = tbl
     /\ InstallM(e, {Infer(r.pool, lp)}, tbl, gst,
                 FailIf(b # gen, D("block built by the harness is not the spec's block of that kind"))
                 \cup FailIf(e.vb # vbSpec, D("real ValidateBlock disagrees with the spec's")),
                 FailIf(tookIt /\ e.pre.peer # e.p /\ postPeer # e.p,
                        V("AcceptOnlyFromAsked", e.kind \o ":asked=" \o (IF e.pre.peer \in honest THEN "honest" ELSE "other")))
                 \* the unassigned window: the requester had no owner already at the previous logged pool (its
                 \* peer had been removed, nobody else picked, no redo queued) and the sender is not in the pool
                 \cup FailIf(tookIt /\ ~e.pre.redo /\ e.p \notin DOMAIN lp.peers
                             /\ b.h \in ReqHeights(gp) /\ gp.req[b.h].peer = Nil,
                             V("AcceptOnlyFromAsked", e.kind \o ":asked=nobody")),
                 {}, r.pool)
     /\ UNCHANGED <<tT, honest, gst, gstore, hand, wide>>

StepPlain(e) ==   \* NoBlock, Timeout
  LET lp == PoolOfLog(e.pool, blocks)
      x  == Infer(gp, lp)
      y  == IF e.ev = "Timeout" /\ e.p \in DOMAIN x.peers THEN [x EXCEPT !.peers[e.p].to = TRUE] ELSE x
  IN /\ Install(e, {y}, blocks, gst, {}, {}, {})
     /\ UNCHANGED <<tT, honest, blocks, gst, gstore, hand, wide>>

\* the requester's 30 s retry timer (driven by the harness through the same redo -> reset path)
StepRetry(e) ==
  LET lp == PoolOfLog(e.pool, blocks)
      x  == Infer(gp, lp)
      y  == IF CanRetry(x, e.h) THEN Retry(x, e.h) ELSE x
  IN /\ Install(e, {Infer(y, lp), y}, blocks, gst, {}, {}, {})
     /\ UNCHANGED <<tT, honest, blocks, gst, gstore, hand, wide>>

\* poolRoutine is about to evaluate IsCaughtUp; the harness evaluated it on the same pool: TRUE
StepTick(e) ==
  LET lp == PoolOfLog(e.pool, blocks) IN
  /\ Install(e, {Infer(gp, lp)}, blocks, gst,
             FailIf(~IsCaughtUp(lp), D("the code's IsCaughtUp holds where the spec's does not")), {}, {})
  /\ UNCHANGED <<tT, honest, blocks, gst, gstore, hand, wide>>

StepStopPeer(e) ==
  LET lp == PoolOfLog(e.pool, blocks)
      \* the stub reactor that reports the stop may run before or after BlockchainReactor.RemovePeer
      x  == {Infer(PoolRemove(gp, e.p), lp), Infer(gp, lp)}
      \* RedoRace (deviation of the code, harmless for the property): RedoRequest reads the
      \* requester's peer id when it runs, not when the pair was peeked; a requester that was
      \* reset and has re-picked in between gets its NEW peer stopped
      race == failH # {}
  IN /\ Install(e, x, blocks, gst,
                FailIf(e.why = "validation" /\ e.p \notin owed /\ ~race,
                       D("peer stopped for a validation error without a pair the spec refuses")), {}, {e.p})
     /\ UNCHANGED <<tT, honest, blocks, gst, gstore, hand, wide>>

StepSave(e) ==
  LET lp    == PoolOfLog(e.pool, blocks)
      x     == Infer(gp, lp)
      b     == e.blk
      pows  == e.nodeVals
      stOK  == gst.h = e.h - 1
      valid == stOK /\ ValidateBlock(gst, VAt(e.h - 1), b)
      cls   == b.uid \o ":" \o Concat(e.seen.slots)
  IN /\ gstore' = Append(gstore, [blk |-> b, seen |-> e.seen])
     /\ Install(e, {x}, blocks, gst,
                FailIf(~(VerifyLight(pows, BID(b), e.h, e.seen) /\ VerifySeen(pows, BID(b), e.h, e.seen) /\ valid),
                       D("code saved a block the spec's TrySync refuses"))
                \cup FailIf(pows # VAt(e.h), D("node state prescribes another validator set than the chain"))
                \cup FailIf(Len(gstore) # e.h - 1, D("store not contiguous")),
                FailIf(b # CanonBlock(e.h), V("OnlyCanonical", cls))
                \cup FailIf(~Covers(pows, BID(b), e.h, e.seen), V("CommitCovers", cls))
                \cup FailIf(~valid, V("FullyValidated", cls)), {})
     /\ UNCHANGED <<tT, honest, blocks, gst, hand, wide>>

StepApply(e) ==
  LET lp == PoolOfLog(e.pool, blocks) IN
  /\ gst' = [h |-> e.h, lastID |-> [hash |-> e.id, psh |-> e.uid]]
  /\ Install(e, {Infer(gp, lp)}, blocks, gst', {},
             FailIf(e.id # CanonId(e.h) \/ e.uid # CanonId(e.h), V("OnlyCanonical", "applied:" \o e.uid))
             \cup FailIf(~(e.h <= Len(gstore) /\ gstore[e.h].blk.id = e.id /\ gstore[e.h].blk.uid = e.uid) \/ e.h # gst.h + 1,
                         V("AppliedIsStored", "applied:" \o e.uid)), {})
  /\ UNCHANGED <<tT, honest, blocks, gstore, hand, wide>>

\* reconstructLastCommit on the stored seen commit: panic iff the spec's VoteSetClean is false
PanicSpec(e) == e.h > 0 /\ ~VoteSetClean(e.lastVals, e.seen)

StepHandover(e) ==
  LET lp == PoolOfLog(e.pool, blocks)
      x  == Infer(gp, lp)
      \* The reactor decided (pool.IsCaughtUp in the switchToConsensusTicker case) on the pool of the last
      \* Tick or on the pool after one of the events logged since -- which one cannot be observed.  A
      \* hand-over counts as taken "with an honest peer in the pool" only if EVERY candidate has one.
      \* IsCaughtUp is the code's: within one block of the best peer the node KNOWS of at that moment; with a
      \* low-lying liar as the only known peer the node legitimately leaves the sync at once.
  IN /\ hand' = [done |-> TRUE, h |-> e.h, honestInPool |-> cands # {} /\ \A c \in cands : c.honest]
     /\ Install(e, {x}, blocks, gst,
                FailIf(e.panic # PanicSpec(e), D("hand-over panic differs from the spec's prediction"))
                \cup FailIf(cands # {} /\ \A c \in cands : ~c.cu,
                            D("hand-over although the spec's IsCaughtUp is false in every state the decision can have seen"))
                \cup FailIf(cands = {}, D("hand-over without an observed evaluation of IsCaughtUp"))
                \cup FailIf(e.h # gst.h, D("hand-over state height differs from the applied height")),
                FailIf(e.panic, V("CleanHandover", "handover:" \o Concat(e.seen.slots))),
                \* a pair that is still lying in the pool when the node leaves the sync was never
                \* examined (IsCaughtUp may hold two blocks below the tip): nobody owes anything for it
                IF PairRefused(lp, gst) THEN FailPeers(lp) ELSE {})
     /\ UNCHANGED <<tT, honest, blocks, gst, gstore, wide>>

StepProbe(e) ==
  LET lp == PoolOfLog(e.pool, blocks) IN
  /\ Install(e, {Infer(gp, lp)}, blocks, gst,
             FailIf(e.panic # PanicSpec(e), D("restart panic differs from the spec's prediction")),
             FailIf(e.panic, V("CleanRestart", "restart:" \o Concat(e.seen.slots))), {})
  /\ UNCHANGED <<tT, honest, blocks, gst, gstore, hand, wide>>

StepEnd(e) ==
  LET lp == PoolOfLog(e.pool, blocks)
      alive == Range(e.pool.sw)
      judged == e.stable /\ ~e.nofill
  IN /\ Install(e, {Infer(gp, lp)}, blocks, gst,
                FailIf(Len(e.store) # Len(gstore) \/ \E h \in 1..Min(Len(e.store), Len(gstore)) :
                           e.store[h].id # gstore[h].blk.id \/ e.store[h].uid # gstore[h].blk.uid \/ e.store[h].seen # gstore[h].seen,
                       D("final store differs from the Save events")),
                \* liars dropped: nobody whose block sat in a refused pair is still connected,
                \* and no refused pair is left lying in the pool
                FailIf(judged /\ ((owed \cap alive) # {} \/ (PairRefused(lp, gst) /\ ~hand.done)), V("LiarsDropped", IF e.pairStuck THEN "stuck" ELSE "connected"))
                \* reaches the tip with an honest peer
                \cup FailIf(judged /\ e.hasHonest /\ ~e.handed, V("ReachesTip", IF e.stalled THEN "stalled" ELSE "nohandover"))
                \cup FailIf(judged /\ e.hasHonest /\ e.handed /\ hand.honestInPool /\ hand.h < tT - 2, V("ReachesTip", "early"))
                \cup FailIf(\E h \in 1..Len(e.store) : e.store[h].id # CanonId(h) \/ e.store[h].uid # CanonId(h), V("OnlyCanonical", "final")),
                {})
     /\ UNCHANGED <<tT, honest, blocks, gst, gstore, hand, wide>>

Step ==
  /\ l <= Len(Trace)
  /\ LET e == Trace[l] IN
       CASE e.ev = "Reset"    -> StepReset(e)
         [] e.ev = "Join"     -> StepJoin(e)
         [] e.ev = "Status"   -> StepStatus(e)
         [] e.ev = "Request"  -> StepRequest(e)
         [] e.ev = "Response" -> StepResponse(e)
         [] e.ev = "NoBlock"  -> StepPlain(e)
         [] e.ev = "Timeout"  -> StepPlain(e)
         [] e.ev = "StopPeer" -> StepStopPeer(e)
         [] e.ev = "Tick"     -> StepTick(e)
         [] e.ev = "Retry"    -> StepRetry(e)
         [] e.ev = "Save"     -> StepSave(e)
         [] e.ev = "Apply"    -> StepApply(e)
         [] e.ev = "Handover" -> StepHandover(e)
         [] e.ev = "Probe"    -> StepProbe(e)
         [] e.ev = "End"      -> StepEnd(e)
  /\ l' = l + 1

Finish ==
  /\ l = Len(Trace) + 1
  /\ WriteVerdict("verdict.json", Len(Trace), viol, drift)
  /\ l' = l + 1
  /\ UNCHANGED <<tT, honest, gp, blocks, gst, gstore, owed, failH, hand, viol, drift, wide, cands, holder, kept>>

Next == Step \/ Finish
=============================================================================
