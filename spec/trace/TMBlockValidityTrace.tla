------------------------ MODULE TMBlockValidityTrace ------------------------
(* Trace validation for C06: what the real state.BlockExecutor (CreateProposalBlock,
   ValidateBlock, ApplyBlock), state.MakeBlock / MedianTime, the state store and the evidence
   pool did on two replicas (harness/inpkg/state/zz_verif_c06_test.go), judged with the
   operators of TMBlockValidity / TMBlockPerturb.

   Every line installs the OBSERVED state / block.  drift = the observed step is not the
   design specification's step (conformance, never an alarm); viol = a property of C06 is
   false on what was observed:
     MadeBlocksValid     the block the real proposer code built was refused by the real validation
     AcceptIffValid      real accept/reject of a (perturbed) block differs from ValidBlock on the observed block
     PerturbedRejected   a single-field perturbation that changed the block was accepted
     TimeIsSignerWeightedMedian  an accepted block's time is not the median weighted by the signers' power
     HashBindsHeader     two blocks with different header fields have the same hash
     Deterministic       the replicas disagree (state bytes, stored state, block hash, block id, verdicts)
                         - incl. the nodes that apply every block through the crash-recovery path
                         (Handshaker.ReplayBlocks from the stored ABCI responses, DiscardABCIResponses false/true)
     TransitionFn        the next state is not NextState(state, block, responses)
     StoredHistory       LoadValidators / LoadConsensusParams do not return what governed a height
     FitsLimits          a proposed block (or its part set) exceeds ConsensusParams.Block.MaxBytes      *)
EXTENDS TMBlockPerturb, TraceKit

Trace == LoadTrace("trace.ndjson")

VARIABLES l, cx, blk, blkok, viol, drift
vars == <<l, cx, blk, blkok, viol, drift>>

NoSt == GenesisState("none", 1, << >>, ZeroParams, "", 0)
NoBlk == MakeBlock(NoSt, << >>, << >>, 0, EmptyCommit, "")
NoCx == [st |-> NoSt, hist |-> << >>, evc |-> {}]

Init == l = 1 /\ cx = NoCx /\ blk = NoBlk /\ blkok = FALSE /\ viol = {} /\ drift = {}

V(inv, class) == [l |-> l, inv |-> inv, class |-> class]
D(what)       == [l |-> l, what |-> what]

\* ------------------------------------------------------------------ Reset
StepReset(e) ==
  LET g   == e.genesis
      exp == GenesisState(g.chain, g.ih, g.vals, g.params, g.appHash, g.appVer)
  IN /\ cx' = [st |-> e.post, hist |-> << >>, evc |-> {}]
     /\ blk' = NoBlk /\ blkok' = FALSE
     /\ drift' = drift \cup FailIf(e.post # exp, D("genesis state differs from MakeGenesisState of the spec"))
     /\ viol' = viol \cup FailIf(e.sA # e.sB, V("Deterministic", "genesis_state_bytes"))

\* ------------------------------------------------------------------ Make
\* the same class as TMBlockChain!MedianRoundingClass, over the precommits the proposer was given
RoundingClass(st, vs) ==
  Len(vs) = Len(st.lastVals) /\
  LET es  == [i \in DOMAIN vs |-> [ts |-> vs[i].ts, w |-> IF vs[i].flag = "absent" THEN 0 ELSE st.lastVals[i].power]]
      T   == SumSeq([i \in DOMAIN es |-> es[i].w])
      old == SumSeq([i \in DOMAIN es |-> IF es[i].ts <= st.lastTime THEN es[i].w ELSE 0])
  IN T % 2 = 1 /\ 2 * old = T - 1 /\ old > 0

ExpCommit(st, vs) ==
  IF st.lastHeight = 0 THEN EmptyCommit
  ELSE [height |-> st.lastHeight, round |-> 0, blockID |-> st.lastBlockID,
        sigs |-> [i \in DOMAIN vs |->
                    IF vs[i].flag = "absent" THEN AbsentSig
                    ELSE [flag |-> vs[i].flag, addr |-> st.lastVals[i].id, ts |-> vs[i].ts,
                          sig |-> SigStr(st.lastVals[i].id, st.chainID, st.lastHeight, 0,
                                         IF vs[i].flag = "commit" THEN st.lastBlockID ELSE ZeroBID, vs[i].ts)]]]

StepMake(e) ==
  LET b     == e.block
      st    == cx.st
      exp   == MakeBlock(st, b.txs, b.evidence, b.evBytes, b.lastCommit, e.req.proposer)
      ff    == FirstFailure(cx, b)
      valid == ff = "ok"
      recAll == \A i \in DOMAIN e.accR : e.accR[i].accepted
      recNone == \A i \in DOMAIN e.accR : ~e.accR[i].accepted /\ e.accR[i].err = "time_notafter"
      both  == e.accepted /\ e.acceptedB /\ recAll
      sizeClass == IF e.nLastVals > e.nVals THEN "lastvals_gt_vals" ELSE "other"
  IN /\ blk' = b /\ blkok' = valid /\ cx' = cx
     /\ drift' = drift
          \cup FailIf(b # exp, D("made block differs from MakeBlock of the spec"))
          \cup FailIf(b.lastCommit # ExpCommit(st, e.req.votes), D("commit differs from VoteSet.MakeCommit of the spec"))
          \cup FailIf(e.req.fill = 0 /\ b.txs # e.req.txs, D("block does not carry the mempool's transactions"))
          \cup FailIf(e.err # ff, D("validateBlock failed at another check than the spec"))
     /\ viol' = viol
          \cup FailIf(~both, V("MadeBlocksValid",
                               IF RoundingClass(st, e.req.votes) /\ e.err = "time_notafter" /\ e.errB = "time_notafter" /\ recNone
                               THEN "median_rounding_odd_power"
                               ELSE IF e.accepted /\ e.acceptedB THEN "refused_by_recovered_node"
                               ELSE "refused:" \o e.err \o "/" \o e.errB))
          \cup FailIf(e.accepted # valid \/ e.acceptedB # valid,
                      V("AcceptIffValid", IF valid THEN "made_rejected_valid:" \o e.err ELSE "made_accepted_invalid:" \o ff))
          \cup FailIf(e.hashA # e.hashB \/ e.bid.hash # e.hashA, V("Deterministic", "block_hash_after_gossip"))
          \cup FailIf(e.appHashLen <= 32 /\ (e.bytes > e.maxBytes \/ e.partsBytes > e.maxBytes), V("FitsLimits", sizeClass))

\* ------------------------------------------------------------------ Perturb
ApplyDelta(b, d) == [f \in DOMAIN b |-> IF f \in DOMAIN d THEN d[f] ELSE b[f]]

HeaderFields == {"version", "chainID", "height", "time", "lastBlockID", "lastCommitHash", "dataHash", "valsHash",
                 "nextValsHash", "consHash", "appHash", "lastResultsHash", "evidenceHash", "proposer"}
SameModEvBytes(a, b) == [a EXCEPT !.evBytes = 0] = [b EXCEPT !.evBytes = 0]

StepPerturb(e) ==
  LET op    == e.op
      pb    == ApplyDelta(blk, e.delta)
      ff    == FirstFailure(cx, pb)
      valid == ff = "ok"
      cls   == op.f \o "/" \o op.k
      madeOK == blkok
      exempt == \/ (op.f = "proposer" /\ HasAddress(cx.st.vals, pb.proposer))
                \/ (blk.height = cx.st.initialHeight /\ op.f \in {"commit_round", "commit_bid_hash", "commit_bid_pstotal"})
      \* conformance of the operation itself: only for operations of the spec's alphabet for this block
      \* (the random driver also aims operations at absent signatures etc.; those are judged all the same)
      known  == /\ op \in AllOps(cx, blk) /\ op.k # "ev_committed"
                /\ (cx.st.lastHeight = 0 \/ {cx.st.lastHeight, cx.st.initialHeight} \subseteq DOMAIN cx.hist)
      specpb == IF known THEN Perturb(cx, blk, op) ELSE pb
      headerDiffers == \E f \in HeaderFields : pb[f] # blk[f]
  IN /\ UNCHANGED <<cx, blk, blkok>>
     /\ drift' = drift
          \cup FailIf(~SameModEvBytes(pb, specpb), D("perturbed block differs from Perturb of the spec: " \o cls))
          \cup FailIf(e.err # ff, D("rejected at another check than the spec: " \o cls))
     /\ viol' = viol
          \cup FailIf(e.accepted # valid \/ e.panic # "",
                      V("AcceptIffValid", (IF e.panic # "" THEN "panic:" ELSE IF e.accepted THEN "accepted_invalid:" \o ff \o ":"
                                           ELSE "rejected_valid:" \o e.err \o ":") \o cls))
          \cup FailIf(madeOK /\ op.f # "R" /\ pb # blk /\ ~exempt /\ e.accepted, V("PerturbedRejected", cls))
          \cup FailIf(madeOK /\ pb = blk /\ ~e.accepted, V("PerturbedRejected", "unchanged_rejected:" \o cls))
          \cup FailIf(e.accepted /\ valid /\ ~StatementTimeOK(cx, pb),
                      V("TimeIsSignerWeightedMedian",
                        IF ~CommitAddrsMatch(cx.st.lastVals, pb.lastCommit) THEN "commit_sig_address_mismatch" ELSE "other:" \o cls))
          \cup FailIf(headerDiffers /\ e.hash = e.hash0 /\ pb.valsHash # "", V("HashBindsHeader", cls))

\* ------------------------------------------------------------------ Apply
ValsAtT(st, hist, h) == IF h \in DOMAIN hist THEN hist[h].vals
                        ELSE IF h = NextHeight(st) THEN st.vals ELSE st.nextVals
ParamsAtT(st, hist, h) == IF h \in DOMAIN hist THEN hist[h].params ELSE st.params

StateFields == {"version", "chainID", "initialHeight", "lastHeight", "lastBlockID", "lastTime", "nextVals", "vals", "lastVals",
                "lastHeightValsChanged", "params", "lastHeightParamsChanged", "lastResultsHash", "appHash"}
FirstDiff(a, b) == IF \E f \in StateFields : a[f] # b[f] THEN CHOOSE f \in StateFields : a[f] # b[f] ELSE "none"

StepApply(e) ==
  LET st    == cx.st
      valid == blkok
      r     == NextState(st, blk, e.bid, e.resp)
      expOK == valid /\ r.ok
      nhist == (blk.height :> [vals |-> st.vals, time |-> blk.time, params |-> st.params]) @@ cx.hist
      post  == e.post
      badV  == {i \in DOMAIN e.lv : ~e.lv[i].ok \/ e.lv[i].vals # ValsAtT(post, nhist, e.lv[i].h)}
      badP  == {i \in DOMAIN e.lp : ~e.lp[i].ok \/ e.lp[i].params # ParamsAtT(post, nhist, e.lp[i].h)}
  IN /\ cx' = IF e.ok THEN [st |-> post, hist |-> nhist, evc |-> cx.evc \cup {blk.evidence[i] : i \in DOMAIN blk.evidence}]
              ELSE cx
     /\ blk' = NoBlk /\ blkok' = FALSE
     /\ drift' = drift
          \cup FailIf(e.ok # expOK, D("ApplyBlock succeeded/failed unlike the spec"))
          \cup UNION {FailIf(e.rec[i].ok /\ r.ok /\ e.rec[i].mode = "crash_replay"
                             /\ e.rec[i].post # ApplyVia(st, blk, e.bid, e.resp, e.rec[i].variant).st,
                             D("recovered state differs from ApplyVia of the spec: " \o e.rec[i].variant)) : i \in DOMAIN e.rec}
          \cup FailIf(valid /\ e.bb # BeginBlockInfo(st, blk, e.bid), D("BeginBlock/DeliverTx requests differ from the spec"))
     /\ viol' = viol
          \cup FailIf(e.sA # e.sB \/ e.ldA # e.sA \/ e.ldB # e.sB \/ e.bid # e.bidB \/ e.ok # e.okB \/ e.rqA # e.rqB,
                      V("Deterministic", IF e.sA # e.sB THEN "state_bytes" ELSE IF e.bid # e.bidB THEN "block_id"
                                         ELSE IF e.ok # e.okB THEN "apply_verdict"
                                         ELSE IF e.rqA # e.rqB THEN "abci_requests" ELSE "stored_state_bytes"))
          \* NextStateSame on the observed nodes: live (A) vs replayed from the stored responses
          \cup UNION {FailIf(e.ok /\ e.okB /\ (~e.rec[i].ok \/ e.rec[i].s # e.sA),
                             V("Deterministic", "recovery_" \o e.rec[i].variant \o ":" \o
                                                (IF ~e.rec[i].ok THEN "failed" ELSE FirstDiff(e.rec[i].post, post)))) : i \in DOMAIN e.rec}
          \cup FailIf(e.ok /\ ~valid, V("AcceptIffValid", "applied_invalid:" \o FirstFailure(cx, blk)))
          \cup FailIf(expOK /\ ~e.ok /\ e.panic # "", V("AcceptIffValid", "panic_applying_valid_block"))
          \cup FailIf(e.ok /\ r.ok /\ post # r.st, V("TransitionFn", FirstDiff(post, r.st)))
          \cup FailIf(~e.ok /\ post # st, V("TransitionFn", "failed_apply_changed_state"))
          \cup FailIf(e.ok /\ badV # {}, V("StoredHistory", "validators"))
          \cup FailIf(e.ok /\ badP # {}, V("StoredHistory", "params"))

StepOther(e) == UNCHANGED <<cx, blk, blkok, viol, drift>>

Step ==
  /\ l <= Len(Trace)
  /\ LET e == Trace[l] IN
       CASE e.ev = "Reset"   -> StepReset(e)
         [] e.ev = "Make"    -> StepMake(e)
         [] e.ev = "Perturb" -> StepPerturb(e)
         [] e.ev = "Apply"   -> StepApply(e)
         [] OTHER            -> StepOther(e)
  /\ l' = l + 1

Finish ==
  /\ l = Len(Trace) + 1
  /\ WriteVerdict("verdict.json", Len(Trace), viol, drift)
  /\ l' = l + 1
  /\ UNCHANGED <<cx, blk, blkok, viol, drift>>

Next == Step \/ Finish
=============================================================================
