---------------------------- MODULE TMGossipTrace ----------------------------
(* Trace validation for the GOSSIP check: observations of a real consensus Reactor gossiping to one scripted peer
   (harness zz_verif_gossip_test.go) against TMGossip / TMGossipSys.

   Every line carries what the harness saw: the reactor's copy of the node's round state (n), the PeerRoundState the
   reactor keeps for the peer (prs), the peer's real consensus.State (x), the messages sent in either direction.
   The logged states are installed after every line.

   level 1 (drift): the observed step is not the model's step -- an iteration of a gossip routine whose (sends, prs')
                    is not one of the model's outcomes, Receive with another effect, a peer brain reacting otherwise,
                    a situation the scripts did not reach; also the named gaps observed at rest (what = "gap:...").
   level 2 (viol) : GossipComplete (at rest nothing servable is lacking, every due claim is made; rest is reached),
                    PeerStateSound, SendTruthful, NoRedundantSend, SendRecorded, AnnouncementRecorded, AnswerCorrect,
                    BroadcastTruthful / BroadcastComplete.                                                        *)
EXTENDS TMGossipSys, TraceKit

CONSTANT StrictGaps     \* named gaps to be reported as GossipComplete violations (demonstration of a gap on real code); {} normally

Trace == LoadTrace("trace.ndjson")
TGPW == [v \in Vals |-> 1]
TGPS == <<"v0", "v1", "v2", "v3">>
TGValSeq == <<"v0", "v1", "v2", "v3">>

\* n, x, prs, kv, kp, kprop, kh are TMGossipSys's variables (env, mid, act are not used here)
VARIABLES l, viol, drift
tvars == <<l, n, x, prs, kv, kp, kprop, kh, viol, drift>>

SeqSet(s) == {s[i] : i \in DOMAIN s}

\* ---------------------------------------------------------------- observed values -> model values
ObsMsg(j) == [k |-> j.k, h |-> j.h, r |-> j.r, t |-> j.t, i |-> j.i, v |-> j.v, pol |-> j.pol, bits |-> SeqSet(j.bits), s |-> j.s, c |-> j.c]
ObsMsgs(js) == [k \in DOMAIN js |-> ObsMsg(js[k])]
ObsPRS(j) == [h |-> j.h, r |-> j.r, step |-> j.step, proposal |-> j.proposal, pbpHdr |-> j.pbpHdr, pbp |-> SeqSet(j.pbp),
              polR |-> j.polR, pol |-> SeqSet(j.pol), pv |-> SeqSet(j.pv), pc |-> SeqSet(j.pc), lcR |-> j.lcR, lc |-> SeqSet(j.lc),
              ccR |-> j.ccR, cc |-> SeqSet(j.cc), ccAlias |-> j.ccAlias]
\* peer claims are not observable in the code (types.VoteSet.peerMaj23s): the harness keeps a shadow of the claims it delivered
ObsVS(o) == [votes |-> o.votes, by |-> {<<p[1], p[2]>> : p \in SeqSet(o.by)}, pm |-> {<<"ext", b>> : b \in SeqSet(o.pm)}, maj |-> o.maj]
ObsParty(j) ==
  [h |-> j.h,
   cn |-> [height |-> 1, round |-> j.cn.round, step |-> j.cn.step,
           lockedR |-> j.cn.lockedR, lockedV |-> j.cn.lockedV, validR |-> j.cn.validR, validV |-> j.cn.validV,
           prop |-> [r |-> j.cn.prop.r, v |-> j.cn.prop.v, pol |-> j.cn.prop.pol],
           propBlock |-> j.cn.propBlock, partsHdr |-> j.cn.partsHdr, ttp |-> j.cn.ttp, commitR |-> j.cn.commitR,
           pv |-> [r \in Rounds |-> ObsVS(j.cn.pv[r + 1])], pc |-> [r \in Rounds |-> ObsVS(j.cn.pc[r + 1])],
           tracked |-> SeqSet(j.cn.tracked) \cap Rounds,
           catchup |-> [p \in Vals \cup {"ext"} |-> 0],
           lastCommit |-> [r |-> j.cn.lastCommit.r, votes |-> j.cn.lastCommit.votes],
           decision |-> Nil, panic |-> "none", stuck |-> FALSE, out |-> << >>],
   parts |-> SeqSet(j.parts), lcpm |-> SeqSet(j.cn.lastCommit.pm),
   chain |-> [k \in DOMAIN j.chain |-> [v |-> j.chain[k].v, r |-> j.chain[k].r, votes |-> j.chain[k].votes]]]

\* the observable part of a party (claims only as vote-set entries, no catch-up round counters)
Entries(vs) == {b \in {q[1] : q \in vs.by} \cup {c[2] : c \in vs.pm} : TRUE}
VSView(vs) == [votes |-> vs.votes, by |-> vs.by, ent |-> Entries(vs), maj |-> vs.maj]
View(p) ==
  [h |-> p.h, parts |-> p.parts,
   \* which precommits the store returns for a decided height changes when the NEXT block (with its LastCommit) is saved:
   \* seen commit before, the proposer's selection afterwards -- compared by block and round only
   chain |-> [k \in DOMAIN p.chain |-> [v |-> p.chain[k].v, r |-> p.chain[k].r]],
   round |-> p.cn.round, step |-> p.cn.step, lockedR |-> p.cn.lockedR, lockedV |-> p.cn.lockedV, validR |-> p.cn.validR,
   validV |-> p.cn.validV, prop |-> p.cn.prop, propBlock |-> p.cn.propBlock, partsHdr |-> p.cn.partsHdr, ttp |-> p.cn.ttp,
   pv |-> [r \in Rounds |-> VSView(p.cn.pv[r])], pc |-> [r \in Rounds |-> VSView(p.cn.pc[r])],
   tracked |-> p.cn.tracked, lastCommit |-> p.cn.lastCommit, lcpm |-> p.lcpm]

\* the peer's NewRoundStep announcements are modelled by ONE message for the height/round/step the call ends in; the code
\* sends one per newStep() (also when nothing changed: enterPrecommitWait): compare modulo the intermediate ones
NormAnn(ann, before) ==
  LET other == SelectSeq(ann, LAMBDA m : m.k # "NRS")
      nrs   == SelectSeq(ann, LAMBDA m : m.k = "NRS")
  IN other \o (IF nrs = << >> \/ nrs[Len(nrs)] = AnnNRS(before) THEN << >> ELSE <<nrs[Len(nrs)]>>)
Drift(what, spec) == [l |-> l, what |-> what, spec |-> spec]
Viol(inv, class)  == [l |-> l, inv |-> inv, class |-> class]
Same == UNCHANGED <<n, x, prs, kv, kp, kprop, kh>>

\* ---------------------------------------------------------------- level 2 pieces
\* reported at the step that makes the peer state unsound (not again at every later line)
SoundViol(q, v, p, pr) == {Viol("PeerStateSound", sv[1]) : sv \in SoundViolations(q, v, p, pr) \ SoundViolations(prs, kv, kp, kprop)}
SendViol(nn, before, after, ms) ==
  UNION {   FailIf(~Truthful(nn, ms[k]), Viol("SendTruthful", ms[k].k))
       \cup FailIf(Redundant(before, ms[k]), Viol("NoRedundantSend", ms[k].k))
       \cup FailIf(~Recorded(after, ms[k]), Viol("SendRecorded", ms[k].k)) : k \in DOMAIN ms }
\* the node's own announcements (Switch.Broadcast of NewRoundStep / HasVote / NewValidBlock), order not observable
BcastViol(nn, bs) ==
  UNION {   FailIf(bs[k].k = "HasVote" /\ bs[k].h = nn.h /\ ~HasVoteAt(nn, bs[k].h, bs[k].r, bs[k].t, bs[k].i), Viol("BroadcastTruthful", "HasVote"))
       \cup FailIf(bs[k].k = "NRS" /\ CompareHRS(bs[k].h, bs[k].r, bs[k].s, nn.h, RoundOf(nn), StepOf(nn)) > 0, Viol("BroadcastTruthful", "NewRoundStep"))
       \cup FailIf(bs[k].k = "NVB" /\ bs[k].h = nn.h /\ bs[k].r = RoundOf(nn) /\ (bs[k].v # HdrOf(nn) \/ ~(bs[k].bits \subseteq nn.parts)), Viol("BroadcastTruthful", "NewValidBlock"))
        : k \in DOMAIN bs }
BcastMissing(nn, bs) ==
       FailIf(~\E k \in DOMAIN bs : bs[k].k = "NRS" /\ bs[k].h = nn.h /\ bs[k].r = RoundOf(nn) /\ bs[k].s = StepOf(nn) /\ bs[k].pol = nn.cn.lastCommit.r,
              Viol("BroadcastComplete", "NewRoundStep"))
  \cup FailIf(\E it \in Held(nn, nn.h) : ~\E k \in DOMAIN bs : bs[k].k = "HasVote" /\ bs[k].h = it.h /\ bs[k].r = it.r /\ bs[k].t = it.t /\ bs[k].i = it.i,
              Viol("BroadcastComplete", "HasVote"))

\* ---------------------------------------------------------------- steps
Init == env = 0 /\ mid = NewPRS /\ act = [name |-> "trace"] /\ l = 1 /\ n = NewParty /\ x = NewParty /\ prs = NewPRS /\ kv = {} /\ kp = {} /\ kprop = {} /\ kh = {} /\ viol = {} /\ drift = {}

StepReset(e) ==
  /\ n' = NewParty /\ x' = NewParty /\ prs' = NewPRS /\ kv' = {} /\ kp' = {} /\ kprop' = {} /\ kh' = {}
  /\ drift' = drift \cup FailIf(e.nparts # NParts, Drift("parts per block differ from the model", "nparts"))
  /\ UNCHANGED viol

\* AddPeer: fresh PeerState, the node says hello with its NewRoundStep
StepConnect(e) ==
  LET nn == ObsParty(e.n)  ms == ObsMsgs(e.sent) IN
  /\ n' = nn /\ prs' = ObsPRS(e.prs)
  /\ drift' = drift \cup FailIf(ObsPRS(e.prs) # NewPRS, Drift("a fresh PeerState is not the model's", "connect"))
                    \cup FailIf(ms # <<AnnNRS(nn)>>, Drift("AddPeer does not send exactly the node's NewRoundStep", "connect"))
  /\ viol' = viol \cup FailIf(~\E k \in DOMAIN ms : ms[k] = AnnNRS(nn), Viol("BroadcastComplete", "hello NewRoundStep"))
  /\ UNCHANGED <<x, kv, kp, kprop, kh>>

\* a message of the peer handled by Reactor.Receive (and, for Proposal / BlockPart / Vote, by the node's consensus.State)
StepRecv(e) ==
  LET m  == ObsMsg(e.m)
      q  == ObsPRS(e.prs)
      nn == ObsParty(e.n)          \* after Receive, BEFORE the queued message (if any) is handled: see StepHandle
      ans == ObsMsgs(e.sent)
      spec == Receive(n, prs, m)
      kv2 == KnownV(kv, m)  kp2 == KnownP(kp, m)  kprop2 == KnownProp(kprop, m)
  IN /\ n' = nn /\ prs' = q
     /\ kv' = kv2 /\ kp' = kp2 /\ kprop' = kprop2 /\ kh' = KnownH(kh, m)
     /\ drift' = drift \cup FailIf(spec.prs # q, Drift("Receive: peer state differs from the model", m.k))
                       \cup FailIf(View(spec.n) # View(nn), Drift("Receive: node state differs from the model", m.k))
                       \cup FailIf(spec.sent # ans, Drift("Receive: answer differs from the model", m.k))
     /\ viol' = viol \cup SoundViol(q, kv2, kp2, kprop2)
                     \cup FailIf(~AnnRecorded(q, m), Viol("AnnouncementRecorded", m.k))
                     \cup FailIf(m.k = "Maj23" /\ ~AnswerOK(n, m, ans), Viol("AnswerCorrect", "VoteSetBits"))
                     \cup BcastViol(nn, ObsMsgs(e.bcast))
     /\ UNCHANGED x

\* the node's consensus.State handles a message the reactor queued (Proposal / BlockPart / Vote / VoteSetMaj23 claim)
StepHandle(e) ==
  LET m == ObsMsg(e.m)  nn == ObsParty(e.n) IN
  /\ n' = nn
  /\ drift' = drift \cup FailIf(View(Handle(n, m)) # View(nn), Drift("handleMsg: node state differs from the model", m.k))
  /\ viol' = viol \cup BcastViol(nn, ObsMsgs(e.bcast))
  /\ UNCHANGED <<x, prs, kv, kp, kprop, kh>>

\* the peer's brain handles an input that does not come from the node (its script, a timeout, a third party's vote)
StepEnv(e) ==
  /\ x' = ObsParty(e.x)
  /\ drift' = drift \cup FailIf(View(Step1(x, e.e).x) # View(ObsParty(e.x)), Drift("peer brain differs from TMConsensusNode", e.e.op))
                    \cup FailIf(NormAnn(Step1(x, e.e).ann, x) # NormAnn(ObsMsgs(e.ann), x), Drift("peer announcements differ from the model", e.e.op))
  /\ UNCHANGED <<n, prs, kv, kp, kprop, kh, viol>>

\* the situation has been set up: both scripts run, the peer connected ("live": before its script, "fresh": after)
StepSituation(e) ==
  LET nn == ObsParty(e.n)  xx == ObsParty(e.x)  q == ObsPRS(e.prs)
      s == Situation(e.node, e.peer, e.mode)
      bs == ObsMsgs(e.nbcast)
  IN /\ n' = nn /\ x' = xx /\ prs' = q
     /\ drift' = drift \cup FailIf(View(s.n) # View(nn), Drift("situation: node state not reached", e.node.tail))
                       \cup FailIf(View(s.x) # View(xx), Drift("situation: peer state not reached", e.peer.tail))
                       \cup FailIf(s.prs # q, Drift("situation: peer round state differs from the model", e.mode))
     /\ viol' = viol \cup SoundViol(q, kv, kp, kprop)
                     \cup (IF Len(e.nbcast) > 0 THEN BcastViol(nn, bs) \cup BcastMissing(nn, bs) ELSE {})
     /\ UNCHANGED <<kv, kp, kprop, kh>>

\* one iteration of a gossip routine
StepStep(e) ==
  LET q  == ObsPRS(e.prs)
      nn == ObsParty(e.n)
      ms == ObsMsgs(e.sent)
      outs == CASE e.routine = "data" -> DataOutcomes(nn, prs)
                [] e.routine = "votes" -> VotesOutcomes(nn, prs)
                [] e.routine = "maj23" -> {[prs |-> prs, sent |-> Maj23Sends(nn, prs)]}
      kv2 == KVAll(kv, ms)  kp2 == KPAll(kp, ms)  kprop2 == KPropAll(kprop, ms)
  IN /\ n' = nn /\ prs' = q
     /\ kv' = kv2 /\ kp' = kp2 /\ kprop' = kprop2 /\ kh' = KHAll(kh, ms)
     /\ drift' = drift \cup FailIf([prs |-> q, sent |-> ms] \notin outs, Drift("iteration is not one of the model's outcomes", e.routine))
                       \cup FailIf(View(nn) # View(n), Drift("node state changed without an input", e.routine))
     /\ viol' = viol \cup SendViol(nn, prs, q, ms) \cup SoundViol(q, kv2, kp2, kprop2)
     /\ UNCHANGED x

\* a message of the node reaches the peer
StepDeliver(e) ==
  LET m == ObsMsg(e.m)
      d == Deliver(x, m)
  IN /\ x' = ObsParty(e.x)
     /\ drift' = drift \cup FailIf(View(d.x) # View(ObsParty(e.x)), Drift("peer brain differs from TMConsensusNode", m.k))
                       \cup FailIf(NormAnn(d.ann, x) # NormAnn(ObsMsgs(e.ann), x), Drift("peer announcements differ from the model", m.k))
     /\ UNCHANGED <<n, prs, kv, kp, kprop, kh, viol>>

\* the routines have come to rest (a whole fair round without a send or a change), or the round budget is used up
StepQuiesce(e) ==
  LET lk == Lacks(n, x, prs, kh)
      cm == ClaimsMissing(n, x, prs)
      gp == GapItems(n, x, prs, kh)
  IN /\ viol' = viol
          \cup (IF e.reached THEN {Viol("GossipComplete", "lack:" \o q.c) : q \in lk} \cup {Viol("GossipComplete", "claim:" \o TName(c.t)) : c \in cm}
                ELSE {Viol("GossipComplete", "no_rest")})
          \cup {Viol("GossipComplete", "gap:" \o q.c) : q \in {g \in gp : e.reached /\ g.c \in StrictGaps}}
     /\ drift' = drift \cup {Drift("gap:" \o q.c, "named gap") : q \in gp}
                       \cup FailIf(e.reached /\ ~(DataIdle(n, prs) /\ VotesIdle(n, prs)), Drift("at rest, but the model's routines have something to send", "rest"))
     /\ Same

Step ==
  /\ l <= Len(Trace)
  /\ LET e == Trace[l] IN
       CASE e.ev = "Reset"     -> StepReset(e)
         [] e.ev = "Connect"   -> StepConnect(e)
         [] e.ev = "Recv"      -> StepRecv(e)
         [] e.ev = "Handle"    -> StepHandle(e)
         [] e.ev = "Env"       -> StepEnv(e)
         [] e.ev = "Situation" -> StepSituation(e)
         [] e.ev = "Step"      -> StepStep(e)
         [] e.ev = "Deliver"   -> StepDeliver(e)
         [] e.ev = "Quiesce"   -> StepQuiesce(e)
         [] OTHER              -> Same /\ UNCHANGED <<viol, drift>>
  /\ l' = l + 1
  /\ UNCHANGED <<env, mid, act>>

Finish ==
  /\ l = Len(Trace) + 1
  /\ WriteVerdict("verdict.json", Len(Trace), viol, drift)
  /\ l' = l + 1
  /\ Same /\ UNCHANGED <<viol, drift, env, mid, act>>

Next == Step \/ Finish
=============================================================================
