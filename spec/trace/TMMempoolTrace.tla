--------------------------- MODULE TMMempoolTrace ---------------------------
(* Trace validation for C12: behaviour OBSERVED on the real mempool/v0.CListMempool and
   mempool/v1.TxMempool (harness/inpkg/mempool/v{0,1}/zz_verif_c12_test.go) judged by
   the operators and properties of TMMempoolOps.

   After every event the logged projection of the real object is INSTALLED as the state
   (the ghosts rcache / gone / stale / late come from the specification's own step);
     drift : the spec's step from the previous observed state gives another state / result
             than the code did                                   (level 1, conformance)
     viol  : a C12 property is false on the observed state or step (level 2, verdict).
             A state property is reported at the step that breaks it (not again while it
             stays broken).                                                            *)
EXTENDS TMMempoolOps, TraceKit

Trace == LoadTrace("trace.ndjson")

VARIABLES l, cfg, mode, st, bad, viol, drift
vars == <<l, cfg, mode, st, bad, viol, drift>>

NoCfg == [version |-> "v0", size |-> 0, maxTxsBytes |-> 0, maxTxBytes |-> 0, cacheSize |-> 0,
          keepInvalid |-> FALSE, recheck |-> FALSE, ttl |-> 0, txsize |-> [a |-> 1]]

Init == /\ l = 1 /\ cfg = NoCfg /\ mode = "none" /\ st = EmptyState(0, NoneV, NoneV)
        /\ bad = {} /\ viol = {} /\ drift = {}

-----------------------------------------------------------------------------
(* the logged projection -> a state record; g supplies the ghost fields *)
IdxFun(sq) == [k \in {sq[i].k : i \in DOMAIN sq} |-> (CHOOSE x \in ToSet(sq) : x.k = k).p]

Obs(p, g) ==
  [pool |-> [i \in DOMAIN p.pool |->
               [tx |-> p.pool[i].tx, size |-> p.pool[i].size, gas |-> p.pool[i].gas,
                prio |-> p.pool[i].prio, sender |-> p.pool[i].sender, height |-> p.pool[i].height,
                peers |-> ToSet(p.pool[i].peers)]],
   index |-> IdxFun(p.index), bytes |-> p.bytes, cache |-> p.cache, height |-> p.height,
   inflight |-> [i \in DOMAIN p.inflight |->
                   [tx |-> p.inflight[i].tx, kind |-> p.inflight[i].kind,
                    peer |-> p.inflight[i].peer, h |-> p.inflight[i].h, gas |-> 0]],
   rcur |-> p.rcur, rend |-> p.rend, pre |-> p.pre, post |-> p.post,
   rcache |-> g.rcache, gone |-> g.gone, stale |-> g.stale, late |-> g.late]

Core(s) == [pool |-> s.pool, index |-> s.index, bytes |-> s.bytes, cache |-> s.cache,
            height |-> s.height, inflight |-> s.inflight, rcur |-> s.rcur, rend |-> s.rend,
            pre |-> s.pre, post |-> s.post]

V(e) == [ok |-> e.ok, gas |-> e.gas, prio |-> e.prio, sender |-> e.sender]

-----------------------------------------------------------------------------
(* state properties that are false on n (with what they are about) *)
BadSet(c, n, reap) ==
     (IF Unique(n) THEN {} ELSE {<<"Unique", "">>})
  \cup (IF IndexExact(n) THEN {} ELSE {<<"IndexExact", "">>})
  \cup (IF CountBounded(c, n) THEN {} ELSE {<<"CountBounded", "">>})
  \cup (IF BytesBounded(c, n) THEN {} ELSE {<<"BytesBounded", "">>})
  \cup (IF BytesExact(n) THEN {} ELSE {<<"BytesExact", "">>})
  \cup {<<"CommittedGone", n.pool[p].tx>> : p \in {q \in DOMAIN n.pool : n.pool[q].tx \in n.gone}}
  \cup (IF ReapPrefixN(c, n.pool, -1, reap) THEN {} ELSE {<<"ReapAllPrefix", "">>})

\* the class string narrows a violation to the failing input / call site
Class(e, o, n, b) ==
  IF b[1] = "CommittedGone"
  THEN (IF b[2] \in n.late THEN "v1_response_after_commit"
        ELSE IF mode = "conc" THEN "concurrent" ELSE "readmitted_while_remembered")
  ELSE IF e.ev \in {"CheckTx_Response", "CheckTx"} /\ e.tx \in Keys(o.pool) /\ Len(n.pool) > Len(o.pool)
  THEN "insert_tx_already_in_pool"
  ELSE IF mode = "conc" THEN "concurrent"
  ELSE "other"

\* install n, account drift / violations
Commit(e, o, r, n, stepviol, extradrift) ==
  LET nb == BadSet(cfg, n, e.post.reap) IN
  /\ st' = n
  /\ bad' = nb
  /\ viol' = viol \cup stepviol
                  \cup {[l |-> l, inv |-> b[1], class |-> Class(e, o, n, b)] : b \in nb \ bad}
  /\ drift' = drift \cup extradrift
                    \cup FailIf(Core(r.st) # Core(n), [l |-> l, what |-> "post-state differs from the spec's step"])
                    \cup FailIf(e.post.size # Len(n.pool), [l |-> l, what |-> "Size() is not the list length"])
                    \cup FailIf(e.post.reap # ReapN(cfg, n, -1), [l |-> l, what |-> "ReapMaxTxs(-1) differs from spec"])
                    \cup FailIf(ToSet(e.post.has) # ToSet(n.cache), [l |-> l, what |-> "cache.Has differs from the cache list"])
  /\ UNCHANGED <<cfg, mode>>

ResDrift(e, r) == FailIf(r.res # e.res, [l |-> l, what |-> "result differs from spec: " \o r.res])
Disabled(e) == [st |-> st, res |-> "not enabled in the observed state"]

-----------------------------------------------------------------------------
StepReset(e) ==
  /\ cfg' = e.cfg
  /\ mode' = e.mode
  /\ st' = EmptyState(e.h0, e.pre0, e.post0)
  /\ bad' = {}
  /\ UNCHANGED <<viol, drift>>

StepAdmit(e) ==
  LET r == Admit(cfg, st, e.tx, e.peer)
      n == Obs(e.post, r.st)
  IN Commit(e, st, r, n, {}, ResDrift(e, r))

IsReq(i, kind) == i \in DOMAIN st.inflight /\ st.inflight[i].kind = kind /\ (cfg.version = "v0" => i = 1)

StepResponse(e) ==
  LET ok == IsReq(e.i, "new") /\ st.inflight[e.i].tx = e.tx
      r == IF ~ok THEN Disabled(e)
           ELSE IF cfg.version = "v0" THEN ResponseV0(cfg, st, V(e.v)) ELSE ResponseV1(cfg, st, e.i, V(e.v))
      n == Obs(e.post, r.st)
  IN Commit(e, st, r, n, {}, {})       \* the outcome of a response is visible in the post-state only

StepRecheck(e) ==
  LET ok == IsReq(e.i, "recheck") /\ st.inflight[e.i].tx = e.tx
      r == IF ~ok THEN Disabled(e)
           ELSE IF cfg.version = "v0" THEN RecheckV0(cfg, st, V(e.v)) ELSE RecheckV1(cfg, st, e.i, V(e.v))
      n == Obs(e.post, r.st)
  IN Commit(e, st, r, n,
            FailIf(~RecheckFilters(st, n, e.tx, V(e.v)),
                   [l |-> l, inv |-> "RecheckFilters", class |-> "rejected_recheck_stays"]),
            {})

\* synchronous ABCI client (abcicli.NewLocalClient): admit and response in one call
StepCheckTxSync(e) ==
  LET r1 == Admit(cfg, st, e.tx, e.peer)
      k  == Len(r1.st.inflight)
      r  == IF r1.res # "ok" THEN r1
            ELSE IF cfg.version = "v0"
                 THEN (IF k = 1 THEN [st |-> ResponseV0(cfg, r1.st, V(e.v)).st, res |-> "ok"] ELSE Disabled(e))
                 ELSE [st |-> ResponseV1(cfg, r1.st, k, V(e.v)).st, res |-> "ok"]
      n  == Obs(e.post, r.st)
  IN Commit(e, st, r, n, {}, ResDrift(e, r))

RECURSIVE FoldRechecks(_, _, _)
FoldRechecks(s, rv, j) ==
  IF j > Len(rv) THEN s
  ELSE LET I == {i \in DOMAIN s.inflight : s.inflight[i].kind = "recheck" /\ s.inflight[i].tx = rv[j].tx}
       IN IF I = {} \/ (cfg.version = "v0" /\ MinOf(I) # 1) THEN FoldRechecks(s, rv, j + 1)
          ELSE FoldRechecks((IF cfg.version = "v0" THEN RecheckV0(cfg, s, V(rv[j]))
                             ELSE RecheckV1(cfg, s, MinOf(I), V(rv[j]))).st, rv, j + 1)

\* e.rv: the recheck verdicts answered synchronously inside Update (sync mode), else << >>
StepUpdate(e) ==
  LET en == cfg.version = "v0" => st.inflight = << >>
      u  == Update(cfg, st, e.h, e.txs, e.oks, e.npre, e.npost)
      r  == IF ~en THEN Disabled(e) ELSE [st |-> FoldRechecks(u.st, e.rv, 1), res |-> "ok"]
      n  == Obs(e.post, r.st)
  IN Commit(e, st, r, n,
            FailIf(~UpdateRemoves(n, e.txs),
                   [l |-> l, inv |-> "UpdateRemoves",
                    class |-> IF Unique(st) THEN "committed_tx_left_in_pool" ELSE "committed_tx_left_in_pool_after_duplicate"])
            \cup FailIf(\E j \in DOMAIN e.rv : ~RecheckFilters(u.st, n, e.rv[j].tx, V(e.rv[j])),
                        [l |-> l, inv |-> "RecheckFilters", class |-> "rejected_recheck_stays"]),
            {})

StepFlush(e) ==
  LET r == Flush(cfg, st)
      n == Obs(e.post, r.st)
  IN Commit(e, st, r, n, {}, {})

StepRemove(e) ==
  LET r == RemoveTxByKey(cfg, st, e.tx)
      n == Obs(e.post, r.st)
  IN Commit(e, st, r, n, {}, ResDrift(e, r))

StepReapN(e) ==
  LET r == [st |-> st, res |-> "ok"]
      n == Obs(e.post, st)
  IN Commit(e, st, r, n,
            FailIf(~ReapPrefixN(cfg, st.pool, e.n, e.result),
                   [l |-> l, inv |-> "ReapPrefix",
                    class |-> IF e.n >= 0 /\ Len(e.result) = e.n + 1 THEN "ReapMaxTxs_returns_max_plus_one"
                              ELSE IF ~Unique(st) THEN "reap_of_pool_with_duplicates" ELSE "ReapMaxTxs_other"]),
            FailIf(e.result # ReapN(cfg, st, e.n), [l |-> l, what |-> "ReapMaxTxs result differs from spec"]))

RECURSIVE EncodedSizeUpTo(_, _)
EncodedSizeUpTo(txs, k) == IF k = 0 THEN 0 ELSE ProtoSize(cfg.txsize[txs[k]]) + EncodedSizeUpTo(txs, k - 1)
EncodedSize(txs) == EncodedSizeUpTo(txs, Len(txs))

StepReapBG(e) ==
  LET r == [st |-> st, res |-> "ok"]
      n == Obs(e.post, st)
  IN Commit(e, st, r, n,
            \* e.enc: the size of the result as the generated protobuf code of tmproto.Data encodes it --
            \* an oracle for "respects the byte limit" that shares nothing with the mempool's accounting
            FailIf(~ReapPrefixBG(cfg, st.pool, e.b, e.g, e.result) \/ (e.b >= 0 /\ e.enc > e.b),
                   [l |-> l, inv |-> "ReapPrefix",
                    class |-> IF ~Unique(st) THEN "reap_of_pool_with_duplicates"
                              ELSE IF e.b >= 0 /\ e.enc > e.b THEN "encoded_size_exceeds_maxBytes"
                              ELSE "ReapMaxBytesMaxGas"]),
            FailIf(e.result # ReapBG(cfg, st, e.b, e.g), [l |-> l, what |-> "ReapMaxBytesMaxGas result differs from spec"])
            \cup FailIf(e.enc # EncodedSize(e.result),
                        [l |-> l, what |-> "marshalled size of the result differs from the spec's tag+varint+len rule"]))

\* concurrent driver: only the state at a quiescent point is known (level 2 only); the
\* ghosts are re-synchronised from the observation.  e.judge: the cache never evicted
\* during the run (capacity >= alphabet, or 0), so "remembered since the commit" can be
\* read off the observed cache; otherwise CommittedGone is not judged.
StepQuiesce(e) ==
  LET g == [rcache |-> e.post.cache,
            gone   |-> IF e.judge THEN {t \in st.gone \cup ToSet(e.committed) : Contains(e.post.cache, t)} ELSE {},
            stale  |-> {}, late |-> {}]
      n == Obs(e.post, g)
      nb == BadSet(cfg, n, e.post.reap)
  IN /\ st' = n
     /\ bad' = nb
     /\ viol' = viol \cup {[l |-> l, inv |-> b[1], class |-> Class(e, st, n, b)] : b \in nb \ bad}
     /\ UNCHANGED <<cfg, mode, drift>>

Step ==
  /\ l <= Len(Trace)
  /\ LET e == Trace[l] IN
       CASE e.ev = "Reset"              -> StepReset(e)
         [] e.ev = "CheckTx_Admit"      -> StepAdmit(e)
         [] e.ev = "CheckTx_Response"   -> StepResponse(e)
         [] e.ev = "RecheckResponse"    -> StepRecheck(e)
         [] e.ev = "CheckTx"            -> StepCheckTxSync(e)
         [] e.ev = "Update"             -> StepUpdate(e)
         [] e.ev = "Flush"              -> StepFlush(e)
         [] e.ev = "RemoveTxByKey"      -> StepRemove(e)
         [] e.ev = "ReapMaxTxs"         -> StepReapN(e)
         [] e.ev = "ReapMaxBytesMaxGas" -> StepReapBG(e)
         [] e.ev = "Quiesce"            -> StepQuiesce(e)
  /\ l' = l + 1

Finish ==
  /\ l = Len(Trace) + 1
  /\ WriteVerdict("verdict.json", Len(Trace), viol, drift)
  /\ l' = l + 1
  /\ UNCHANGED <<cfg, mode, st, bad, viol, drift>>

Next == Step \/ Finish
=============================================================================
