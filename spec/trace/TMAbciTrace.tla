---------------------------- MODULE TMAbciTrace ----------------------------
(* Level 2 for the ABCI client layer: the properties of TMAbciSocket / TMAbciLocal /
   TMAbciProxy evaluated on what the REAL code was observed to do.

   A trace line is one event of the harness (harness/inpkg/abci/client, harness/inpkg/proxy);
   the lines are in the order of their sequence numbers, which were assigned under one lock:
   if event a happened-before event b then a precedes b.  The reverse does not hold, so every
   rule below only concludes something from "a is logged before b" when the property demands
   that a happens-before b (then b logged first is a violation) - never from timing.

   Ghost state rebuilt from the events (variable g):
     cs     calls in start order: [call, t, kind, r (label of its request, "F" for flushes), n, retn, err]
     app    labels in the order the application / the peer saw the requests
     gseq   labels in the order the global callback started
     cb     callback starts: [k, r, by];   cbe  callback ends: [k, r]
     open   the callback the recv routine is inside ("" if none)
     last   the last recv-side callback event: [ev, k, r]
     setcb  labels whose SetCallback call has returned
     faults faults injected by the scripted peer;  lied: an undetectable one among them
     ustop  the owner has called Stop();  errseen: a projection showed cli.Error() # nil
   Classes name the failing clause narrowly.                                              *)
EXTENDS TraceKit

Trace == LoadTrace("trace.ndjson")

VARIABLES l, g, viol, drift
vars == <<l, g, viol, drift>>

G0 == [family |-> "-", cs |-> << >>, app |-> << >>, gseq |-> << >>, cb |-> << >>, cbe |-> << >>, open |-> "",
       last |-> [ev |-> "-", k |-> "-", r |-> "-"], setcb |-> {}, faults |-> {}, lied |-> FALSE,
       ustop |-> FALSE, errseen |-> FALSE, inapp |-> << >>, appmax |-> 0, conns |-> << >>, killed |-> 0,
       stops |-> {}, started |-> {}, expectKill |-> FALSE, mutex |-> "-", ignore |-> FALSE, lcb |-> 0]

Init == l = 1 /\ g = G0 /\ viol = {} /\ drift = {}

SeqSet(q) == {q[i] : i \in DOMAIN q}
In(q, x) == \E i \in DOMAIN q : q[i] = x
Pfx(s, t) == Len(s) <= Len(t) /\ \A i \in DOMAIN s : s[i] = t[i]
V(inv, class) == [l |-> l, inv |-> inv, class |-> class]
\* requests the application can see (the socket server answers Echo and Flush itself)
NonF(q) == SelectSeq(q, LAMBDA x : x # "F")

CallOf(c) == CHOOSE x \in SeqSet(g.cs) : x.call = c
HasCall(c) == \E x \in SeqSet(g.cs) : x.call = c
IsSyncKind(k) == k \in {"SyncA", "SyncB", "FlushSync", "SyncD", "SyncC", "SyncQ", "SyncI"}
\* requests that never reach the application: flushes; Echo with the local client (EchoSync answers itself)
Unseen(j) == j.r = "F" \/ (g.family = "local" /\ j.kind = "SyncA")
CbStarted(k, r) == \E i \in DOMAIN g.cb : g.cb[i].k = k /\ g.cb[i].r = r
CbEnded(k, r) == \E i \in DOMAIN g.cbe : g.cbe[i].k = k /\ g.cbe[i].r = r
\* the request of call j was queued before the flush of call k: j is k, or j returned before k
\* started, or j is an earlier call of the same goroutine
MustPrecede(j, k) ==
  /\ j.r # "F"
  /\ \/ j.call = k.call
     \/ j.retn # 0 /\ j.retn < k.n
     \/ j.t = k.t /\ j.n < k.n

\* ------------------------------------------------------------------ socket / local client events
StepReset(e) ==
  /\ g' = [G0 EXCEPT !.family = e.family]
  /\ UNCHANGED <<viol, drift>>

StepCall(e) ==
  /\ g' = [g EXCEPT !.cs = Append(@, [call |-> e.call, t |-> e.t, kind |-> e.kind, r |-> e.r, n |-> e.n, retn |-> 0,
                                      err |-> "-", aftererr |-> g.errseen, incb |-> g.open # ""])]
  /\ UNCHANGED <<viol, drift>>

\* a call returned
StepRet(e) ==
  LET k == CallOf(e.call)
      need == {j \in SeqSet(g.cs) : MustPrecede(j, k)}
      sync == IsSyncKind(e.kind)
      okret == sync /\ e.err = "nil" /\ ~g.ustop IN
  /\ g' = [g EXCEPT !.cs = [i \in DOMAIN @ |-> IF @[i].call = e.call THEN [@[i] EXCEPT !.retn = e.n, !.err = e.err] ELSE @[i]]]
  /\ viol' = viol
       \cup FailIf(okret /\ ~g.lied /\ \E j \in need : ~In(g.app, j.r) /\ ~Unseen(j),
                   V("FlushMeaning", "returned_before_application_saw_request"))
       \* (the local client runs the global callback for Async calls only)
       \cup FailIf(okret /\ \E j \in need : ~CbEnded("g", j.r) /\ (g.family = "local" => ~IsSyncKind(j.kind)),
                   V("FlushMeaning", "returned_before_global_callback_finished"))
       \cup FailIf(okret /\ \E j \in need : j.r \in g.setcb /\ ~CbEnded("r", j.r),
                   V("FlushMeaning", "returned_before_request_callback_finished"))
       \cup FailIf(sync /\ e.kind # "FlushSync" /\ e.err = "nil" /\ ~g.ustop /\ e.got # e.r /\ ~g.lied,
                   V("FlushMeaning", "sync_call_returned_without_its_response"))
       \cup FailIf(e.got \notin {e.r, "nil", "-"} /\ ~g.lied,
                   V("ErrorIsTerminal", "returned_response_of_another_request"))
       \cup FailIf(sync /\ k.aftererr /\ e.err = "nil",
                   V("ErrorIsTerminal", "call_after_error_returned_no_error"))
  /\ UNCHANGED drift

\* the peer / the application received a request
StepGot(e) ==
  LET lab == e.r
      known == \E x \in SeqSet(g.cs) : x.r = lab
      c == CHOOSE x \in SeqSet(g.cs) : x.r = lab
      before == {j \in SeqSet(g.cs) : ~Unseen(j) /\ j.call # c.call /\
                   ((j.retn # 0 /\ j.retn < c.n) \/ (j.t = c.t /\ j.n < c.n))} IN
  /\ g' = [g EXCEPT !.app = Append(@, lab)]
  /\ viol' = IF g.family = "proxy" THEN viol ELSE viol     \* (the wrapper tour of the proxy family logs no Call events)
       \cup FailIf(lab # "F" /\ In(g.app, lab), V("PerConnectionFIFO", "request_delivered_twice"))
       \cup FailIf(lab # "F" /\ ~known, V("PerConnectionFIFO", "request_nobody_made"))
       \cup FailIf(lab # "F" /\ known /\ \E j \in before : ~In(g.app, j.r),
                   V("PerConnectionFIFO", "request_overtook_earlier_request"))
  /\ UNCHANGED drift

StepFault(e) ==
  /\ g' = [g EXCEPT !.faults = @ \cup {e.f}, !.lied = @ \/ e.f \in {"extra", "swap"}]
  /\ UNCHANGED <<viol, drift>>

\* a callback starts
StepCbS(e) ==
  LET recv == e.by = "recv"
      gs2 == IF e.k = "g" THEN Append(g.gseq, e.r) ELSE g.gseq IN
  /\ g' = [g EXCEPT !.lcb = IF g.family = "local" THEN @ + 1 ELSE @,
                    !.cb = Append(@, [k |-> e.k, r |-> e.r, by |-> e.by]),
                    !.gseq = gs2,
                    !.open = IF recv THEN e.k \o ":" \o e.r ELSE @,
                    !.last = IF recv THEN [ev |-> "CbS", k |-> e.k, r |-> e.r] ELSE @]
  /\ viol' = viol
       \cup FailIf(e.r # "F" /\ CbStarted(e.k, e.r), V("CallbackOrder", "callback_ran_twice_" \o e.k))
       \cup FailIf(g.family = "local" /\ g.mutex = "shared" /\ (g.inapp # << >> \/ g.lcb > 0),
                   V("LocalClientSerialises", "callback_ran_during_application_call_or_callback"))
       \cup FailIf(recv /\ g.open # "", V("CallbackOrder", "callbacks_overlap"))
       \cup FailIf(e.k = "g" /\ ~g.lied /\ g.family = "sock" /\ ~Pfx(gs2, g.app),
                   V("CallbackOrder", "global_callback_out_of_request_order"))
       \cup FailIf(e.k = "g" /\ ~g.lied /\ g.family = "conc" /\ ~Pfx(NonF(gs2), NonF(g.app)),
                   V("CallbackOrder", "global_callback_out_of_request_order"))
       \* (whatever the peer does: checking the type is the client's own duty)
       \cup FailIf(e.k = "g" /\ e.rt # e.xt, V("PerConnectionFIFO", "response_of_wrong_type_delivered"))
       \cup FailIf(~g.lied /\ e.x # e.r, V("PerConnectionFIFO", "response_delivered_to_another_request"))
       \cup FailIf(e.k = "r" /\ recv /\ ~(g.last.ev = "CbE" /\ g.last.k = "g" /\ g.last.r = e.r),
                   V("CallbackOrder", "request_callback_not_right_after_its_global_callback"))
       \cup FailIf(e.k = "r" /\ ~recv /\ ~CbEnded("g", e.r) /\ g.family # "local",
                   V("CallbackOrder", "late_request_callback_before_global_callback"))
  /\ UNCHANGED drift

StepCbE(e) ==
  /\ g' = [g EXCEPT !.lcb = IF g.family = "local" /\ @ > 0 THEN @ - 1 ELSE @,
                    !.cbe = Append(@, [k |-> e.k, r |-> e.r]),
                    !.open = IF e.by = "recv" THEN "" ELSE @,
                    !.last = IF e.by = "recv" THEN [ev |-> "CbE", k |-> e.k, r |-> e.r] ELSE @]
  /\ UNCHANGED <<viol, drift>>

StepSetCbE(e) ==
  /\ g' = [g EXCEPT !.setcb = @ \cup {e.r}]
  \* SetCallback on a ReqRes whose callbacks had been invoked must have run the callback itself
  /\ viol' = viol \cup FailIf(CbEnded("g", e.r) /\ g.open # "g:" \o e.r /\ g.last # [ev |-> "CbE", k |-> "g", r |-> e.r]
                                /\ ~CbEnded("r", e.r) /\ FALSE,
                              V("CallbackOrder", "request_callback_lost"))
  /\ UNCHANGED drift

StepUStop(e) == g' = [g EXCEPT !.ustop = TRUE] /\ UNCHANGED <<viol, drift>>

Detectable == {"exception", "garbage", "close", "halfclose", "midframe", "wrongtype", "panic"}

\* a projection taken when every goroutine was blocked and the sockets were drained
StepObs(e) ==
  LET stuckset == {x \in SeqSet(e.inflight) : x.where \in {"Wait", "queueRequest"}}
      dead == e.quit /\ ~e.sendAlive /\ ~e.recvAlive IN
  /\ g' = [g EXCEPT !.errseen = @ \/ e.err # "nil"]
  /\ viol' = IF ~e.settled THEN viol ELSE viol
       \* nobody is left who could release these callers
       \* (a call made while the recv routine was inside a callback, i.e. holding cli.mtx, is named apart:
       \*  the send routine then has its request in hand when the client stops)
       \cup FailIf(dead /\ \E x \in stuckset : x.where = "Wait" /\ ~CallOf(x.call).incb,
                   V("ErrorIsTerminal", IF g.ustop THEN "caller_blocked_for_ever_in_Wait_after_Stop"
                                        ELSE "caller_blocked_for_ever_in_Wait_after_error"))
       \cup FailIf(dead /\ \E x \in stuckset : x.where = "Wait" /\ CallOf(x.call).incb,
                   V("ErrorIsTerminal", IF g.ustop THEN "caller_blocked_for_ever_in_Wait_after_Stop_call_made_during_callback"
                                        ELSE "caller_blocked_for_ever_in_Wait_after_error_call_made_during_callback"))
       \cup FailIf(dead /\ \E x \in stuckset : x.where = "queueRequest",
                   V("ErrorIsTerminal", IF g.ustop THEN "caller_blocked_for_ever_in_queueRequest_after_Stop"
                                        ELSE "caller_blocked_for_ever_in_queueRequest_after_error"))
       \cup FailIf(e.gate = "" /\ ~g.ustop /\ (g.faults \cap Detectable) # {} /\ (e.running \/ e.err = "nil"),
                   V("ErrorIsTerminal", "fault_did_not_stop_client"))
       \cup FailIf(g.faults = {} /\ ~g.ustop /\ (e.err # "nil" \/ ~e.running),
                   V("ErrorIsTerminal", "client_stopped_without_fault"))
       \cup FailIf(e.final /\ e.gate = "" /\ \E r \in g.setcb : CbEnded("g", r) /\ ~CbEnded("r", r),
                   V("CallbackOrder", "request_callback_lost"))
  /\ UNCHANGED drift

StepCrash(e) ==
  /\ viol' = viol \cup {V("ErrorIsTerminal", "process_panic_" \o e.what)}
  /\ UNCHANGED <<g, drift>>

\* ------------------------------------------------------------------ application-side events (honest server, local client, proxy)
\* the application entered / left a handler; conn names the logical connection
StepAppS(e) ==
  LET ins == Append(g.inapp, e.conn) IN
  /\ g' = [g EXCEPT !.inapp = ins, !.appmax = IF Len(ins) > @ THEN Len(ins) ELSE @]
  /\ viol' = viol \cup FailIf(g.inapp # << >> /\ g.mutex = "shared",
                              V("LocalClientSerialises", "application_entered_concurrently_" \o e.m))
                   \cup FailIf(g.lcb > 0 /\ g.mutex = "shared",
                              V("LocalClientSerialises", "application_entered_during_callback_" \o e.m))
  /\ UNCHANGED drift

StepAppE(e) ==
  LET i == CHOOSE i \in DOMAIN g.inapp : g.inapp[i] = e.conn IN
  /\ g' = [g EXCEPT !.inapp = IF In(g.inapp, e.conn) THEN [j \in 1..(Len(@) - 1) |-> IF j < i THEN @[j] ELSE @[j + 1]] ELSE @]
  /\ UNCHANGED <<viol, drift>>

\* ------------------------------------------------------------------ proxy.multiAppConn events
StepMode(e) == g' = [g EXCEPT !.mutex = e.mutex] /\ UNCHANGED <<viol, drift>>

StepClient(e) ==   \* a client was created+started / stopped: [conn, what]
  /\ g' = [g EXCEPT !.started = IF e.what = "started" THEN @ \cup {e.id} ELSE @,
                    !.stops = IF e.what = "stopped" THEN @ \cup {e.id} ELSE @]
  /\ UNCHANGED <<viol, drift>>

StepKill(e) == g' = [g EXCEPT !.killed = @ + 1] /\ UNCHANGED <<viol, drift>>

\* state of multiAppConn after a step, at quiescence: [what, startErr, running (ids), errored (ids), kills]
StepPObs(e) ==
  LET run == SeqSet(e.running)
      errd == SeqSet(e.errored) IN
  /\ g' = g
  /\ viol' = IF ~e.settled THEN viol ELSE viol
       \cup FailIf(e.what = "start_failed" /\ run # {}, V("ErrorIsTerminal", "failed_start_leaks_running_clients"))
       \cup FailIf(e.what = "stopped" /\ run # {}, V("ErrorIsTerminal", "stop_leaves_clients_running"))
       \cup FailIf(e.what = "after_error" /\ errd # {} /\ e.kills = 0, V("ErrorIsTerminal", "client_error_not_signalled_to_node"))
       \cup FailIf(e.what = "started" /\ (Len(e.running) # 4 \/ e.kills # 0), V("ErrorIsTerminal", "start_did_not_start_four_clients"))
       \cup FailIf(e.what \in {"started", "calls_done"} /\ errd = {} /\ e.kills # 0, V("ErrorIsTerminal", "node_killed_without_client_error"))
  /\ UNCHANGED drift

\* what a call through a wrapper method of proxy/app_conn.go must reach in the application
ExpectSeen(api) ==
  CASE api = "InitChainSync" -> <<"InitChain">>
    [] api = "BeginBlockSync" -> <<"BeginBlock">>
    [] api = "DeliverTxAsync+EndBlockSync" -> <<"DeliverTx", "EndBlock">>
    [] api = "CommitSync" -> <<"Commit">>
    [] api = "CheckTxAsync+FlushSync" -> <<"CheckTx">>
    [] api = "CheckTxSync" -> <<"CheckTx">>
    [] api = "FlushAsync" -> << >>
    [] api = "EchoSync" -> << >>
    [] api = "InfoSync" -> <<"Info">>
    [] api = "QuerySync" -> <<"Query">>
    [] api = "ListSnapshotsSync" -> <<"ListSnapshots">>
    [] api = "OfferSnapshotSync" -> <<"OfferSnapshot">>
    [] api = "LoadSnapshotChunkSync" -> <<"LoadSnapshotChunk">>
    [] api = "ApplySnapshotChunkSync" -> <<"ApplySnapshotChunk">>
    [] OTHER -> <<"?">>
StepDeleg(e) ==
  /\ viol' = viol
       \cup FailIf(e.seen # ExpectSeen(e.api), V("PerConnectionFIFO", "wrapper_" \o e.api \o "_reached_other_method"))
       \cup FailIf(e.ok # "true", V("ErrorIsTerminal", "wrapper_call_failed_without_fault"))
  /\ UNCHANGED <<g, drift>>

Skip == UNCHANGED <<g, viol, drift>>

Step ==
  /\ l <= Len(Trace)
  /\ LET e == Trace[l] IN
       CASE e.ev = "Reset"   -> StepReset(e)
         [] g.ignore         -> Skip
         [] e.ev = "Cleanup" -> g' = [g EXCEPT !.ignore = TRUE] /\ UNCHANGED <<viol, drift>>
         [] e.ev = "Call"    -> StepCall(e)
         [] e.ev = "Ret"     -> StepRet(e)
         [] e.ev = "SrvGot"  -> StepGot(e)
         [] e.ev = "Fault"   -> StepFault(e)
         [] e.ev = "CbS"     -> StepCbS(e)
         [] e.ev = "CbE"     -> StepCbE(e)
         [] e.ev = "SetCbE"  -> StepSetCbE(e)
         [] e.ev = "UStop"   -> StepUStop(e)
         [] e.ev = "Obs"     -> StepObs(e)
         [] e.ev = "Crash"   -> StepCrash(e)
         [] e.ev = "AppS"    -> StepAppS(e)
         [] e.ev = "AppE"    -> StepAppE(e)
         [] e.ev = "Mode"    -> StepMode(e)
         [] e.ev = "Client"  -> StepClient(e)
         [] e.ev = "Kill"    -> StepKill(e)
         [] e.ev = "PObs"    -> StepPObs(e)
         [] e.ev = "Deleg"   -> StepDeleg(e)
         [] OTHER            -> Skip
  /\ l' = l + 1

Finish ==
  /\ l = Len(Trace) + 1
  /\ WriteVerdict("verdict.json", Len(Trace), viol, drift)
  /\ l' = l + 1
  /\ UNCHANGED <<g, viol, drift>>

Next == Step \/ Finish
=============================================================================
