CONSTANTS
  Weak_ReleaseBeforeSave = FALSE
  Weak_CheckHRSIgnoresStep = FALSE
  Weak_SameHRSResigns = FALSE
  Weak_TimestampOnlyComparesNothing = FALSE
  Weak_LoadResetsState = FALSE
  Weak_NoFlushBeforeSign = FALSE
INIT Init
NEXT Next
CHECK_DEADLOCK FALSE
