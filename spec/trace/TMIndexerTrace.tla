---------------------------- MODULE TMIndexerTrace ----------------------------
(* Trace validation for C19, indexing half: observations of the REAL IndexerService + kv tx
   indexer + kv block indexer (fed by a real EventBus, or called directly) against
   TMIndexer + TMQuery.

   One run = Reset ; Block* ; TxSearch* ; BlockSearch*.
     Block        the block's events were published (or the indexers called directly); post =
                  dump of both stores.  The dump is INSTALLED as the model's stores.
     TxSearch     what TxIndex.Search returned for q
     BlockSearch  what BlockerIndexer.Search returned for q
   level 1 (drift): store # TMIndexer's store; Search result # TMIndexer!TxSearch/BlockSearch
                    (the model of the search code AS IT IS, evaluated on the observed store)
   level 2 (viol):  IndexOnce on the observed stores; SearchExact: result # Brute =
                    {committed item : Matches(q, EventsOf(item)) = "TRUE"}, labelled with the
                    Cause of the disagreement                                          *)
EXTENDS TMIndexer, TraceKit

Trace == LoadTrace("trace.ndjson")

VARIABLES l, chain, txdb, blkdb, direct, users, pubd, viol, drift
vars == <<l, chain, txdb, blkdb, direct, users, pubd, viol, drift>>

Init == /\ l = 1 /\ chain = << >> /\ txdb = EmptyTxDB /\ blkdb = EmptyBlockDB /\ direct = ""
        /\ users = << >> /\ pubd = << >> /\ viol = {} /\ drift = {}

D(what, spec) == [l |-> l, what |-> what, spec |-> spec]
V(inv, class) == [l |-> l, inv |-> inv, class |-> class]

AllTxs == UNION {SeqToSet(chain[h].txs) : h \in 1..Len(chain)}
Pos(r) == [tx |-> r.tx, height |-> r.height, index |-> r.index]

Panicked(e) == StrHasPrefix(e.err, "panic")

DupTx(r, txs) == \E x \in txs : x # r /\ x.tx = r.tx

StepReset(e) ==
  /\ chain' = << >> /\ txdb' = EmptyTxDB /\ blkdb' = EmptyBlockDB /\ direct' = e.direct
  /\ users' = e.subs /\ pubd' = << >>
  /\ UNCHANGED <<viol, drift>>

\* ------------------------------------------------------------ user subscriptions on the same bus
\* users = the other subscribers of the event bus (queries that may not be evaluable on
\* some events, readers that never read); pubd = what has been published so far.
OutOfCapacityText == "internal subscription event buffer is out of capacity"
Messages(b) == <<[label |-> "blk:" \o ToString(b.height), events |-> BusEventsBlock(b, "NewBlock")],
                 [label |-> "hdr:" \o ToString(b.height), events |-> BusEventsBlock(b, "NewBlockHeader")]>>
               \o [i \in 1..Len(b.txs) |-> [label |-> "tx:" \o b.txs[i].tx, events |-> BusEventsTx(b.txs[i])]]
RECURSIVE Wanted(_, _, _)
Wanted(msgs, q, i) == IF i > Len(msgs) THEN << >>
                      ELSE IF Matches(q, msgs[i].events) = "TRUE" THEN <<msgs[i].label>> \o Wanted(msgs, q, i + 1)
                      ELSE Wanted(msgs, q, i + 1)
IsPrefixOf(a, b) == Len(a) <= Len(b) /\ SubSeq(b, 1, Len(a)) = a
UserViol(msgs, u, o) ==       \* u = [c, q, cap] as subscribed, o = what was observed of it
  LET want == Wanted(msgs, u.q, 1) IN
  IF u.cap = 0 THEN
       \* read eagerly: exactly the matching publications, in order; never cancelled
       IF o.got = want /\ ~o.cancelled THEN {}
       ELSE IF o.cancelled THEN {V("Isolation", "eventbus_subscriber_cancelled")}
       ELSE IF IsPrefixOf(o.got, want) THEN {V("ExactDelivery", "eventbus_subscriber_missed")}
       ELSE {V("ExactDelivery", "eventbus_subscriber_unexpected_delivery")}
  ELSE \* never read: keeps the first cap matching ones, is cancelled by the next one, explicitly
       IF /\ o.nbuf = (IF Len(want) < u.cap THEN Len(want) ELSE u.cap)
          /\ o.cancelled = (Len(want) > u.cap)
          /\ o.err = (IF Len(want) > u.cap THEN OutOfCapacityText ELSE "nil")
       THEN {} ELSE {V("Isolation", "eventbus_slow_subscriber_state")}

RECURSIVE IndexEach(_, _, _)
IndexEach(db, txs, i) == IF i > Len(txs) THEN db ELSE IndexEach(TxIndexOne(db, txs[i]), txs, i + 1)

StepBlock(e) ==
  LET b     == e.b
      ptx   == IF direct = "index" THEN IndexEach(txdb, b.txs, 1) ELSE TxAddBatch(txdb, b.txs)
      pblk  == BlockIndex(blkdb, b)
      otx   == [keys |-> SeqToSet(e.post.txkeys), prim |-> SeqToSet(e.post.prim)]
      oblk  == [prim |-> SeqToSet(e.post.blkprim), keys |-> SeqToSet(e.post.blkkeys)]
      newch == Append(chain, b)
      okTxBefore(r) == TxIndexedOnce(txdb, r)
      all   == AllTxs \cup SeqToSet(b.txs)
      msgs  == IF direct = "" THEN pubd \o Messages(b) ELSE pubd
  IN /\ chain' = newch /\ txdb' = otx /\ blkdb' = oblk /\ direct' = direct
     /\ users' = users /\ pubd' = msgs
     /\ drift' = drift
           \cup FailIf(otx # ptx, D("tx store differs from TMIndexer", "-"))
           \cup FailIf(oblk # pblk, D("block store differs from TMIndexer", "-"))
     /\ viol' = viol
           \* the block that was just committed
           \cup {V("IndexOnce", IF DupTx(r, all) THEN "same_tx_bytes_committed_twice"
                                 ELSE IF ~e.published THEN "tx_events_not_taken_by_bus"
                                 ELSE IF ~e.settled THEN "tx_never_indexed" ELSE "tx_index_entries_wrong") :
                   r \in {x \in SeqToSet(b.txs) : ~TxIndexedOnce(otx, x)}}
           \cup FailIf(~BlockIndexedOnce(oblk, b),
                       V("IndexOnce", IF ~e.published THEN "block_events_not_taken_by_bus"
                                      ELSE IF ~e.settled THEN "block_never_indexed" ELSE "block_index_entries_wrong"))
           \* earlier items must stay indexed; nothing that was not committed may appear
           \cup {V("IndexOnce", IF DupTx(r, all) THEN "same_tx_bytes_committed_twice" ELSE "earlier_tx_damaged") :
                   r \in {x \in AllTxs : okTxBefore(x) /\ ~TxIndexedOnce(otx, x)}}
           \cup FailIf(\E h \in 1..Len(chain) : BlockIndexedOnce(blkdb, chain[h]) /\ ~BlockIndexedOnce(oblk, chain[h]),
                       V("IndexOnce", "earlier_block_damaged"))
           \cup FailIf(\E p \in otx.prim : \A r \in AllTxs \cup SeqToSet(b.txs) : p.h # HashOf(r.tx),
                       V("IndexOnce", "uncommitted_tx_indexed"))
           \cup FailIf(\E h \in oblk.prim : \A i \in 1..Len(newch) : newch[i].height # h,
                       V("IndexOnce", "uncommitted_block_indexed"))
           \* the other subscribers of the bus (through the real EventBus only)
           \cup UNION {UserViol(msgs, users[i], e.users[i]) : i \in 1..Len(e.users)}

StepTxSearch(e) ==
  LET got   == {Pos(t) : t \in SeqToSet(e.txs)}
      spec  == {Pos(p) : p \in TxSearch(txdb, e.q)}
      want  == {Pos(r) : r \in TxBrute(AllTxs, e.q)}
      dis   == IF Panicked(e) THEN {} ELSE {r \in AllTxs : (Pos(r) \in got) # (Pos(r) \in want)}
  IN /\ drift' = drift
           \cup FailIf(e.err # "nil" /\ ~Panicked(e), D("TxIndex.Search returned an error", "-"))
           \cup FailIf(Panicked(e) /\ PanicReason("tx", e.q) = "none", D("TxIndex.Search panicked, TMIndexer says it cannot", "-"))
           \cup FailIf(e.err = "nil" /\ got # spec, D("TxIndex.Search differs from TMIndexer!TxSearch", "-"))
     /\ viol' = viol
           \cup FailIf(Panicked(e), V("SearchExact", "search_panics:" \o PanicReason("tx", e.q)))
           \* a disagreement counts as the recorded one only if the code did exactly what the
           \* model of the code as it is predicts; anything else is labelled unmodelled
           \cup {V("SearchExact", Cause("tx", e.q, TxEventsOf(r), DupTx(r, AllTxs)) \o (IF got # spec THEN ":unmodelled" ELSE "")) : r \in dis}
           \cup FailIf(\E g \in got : \A r \in AllTxs : Pos(r) # g, V("SearchExact", "item_never_committed"))
           \cup FailIf(Cardinality(got) # Len(e.txs), V("SearchExact", "item_returned_twice"))
     /\ UNCHANGED <<chain, txdb, blkdb, direct, users, pubd>>

StepBlockSearch(e) ==
  LET got   == SeqToSet(e.heights)
      spec  == BlockSearch(blkdb, e.q)
      want  == BlockBrute(SeqToSet(chain), e.q)
      dis   == IF Panicked(e) THEN {} ELSE {b \in SeqToSet(chain) : (b.height \in got) # (b.height \in want)}
  IN /\ drift' = drift
           \cup FailIf(e.err # "nil" /\ ~Panicked(e), D("BlockerIndexer.Search returned an error", "-"))
           \cup FailIf(Panicked(e) /\ PanicReason("block", e.q) = "none", D("BlockerIndexer.Search panicked, TMIndexer says it cannot", "-"))
           \cup FailIf(e.err = "nil" /\ got # spec, D("BlockerIndexer.Search differs from TMIndexer!BlockSearch", "-"))
     /\ viol' = viol
           \cup FailIf(Panicked(e), V("SearchExact", "search_panics:" \o PanicReason("block", e.q)))
           \cup {V("SearchExact", Cause("block", e.q, BlockEventsOf(b), FALSE) \o (IF got # spec THEN ":unmodelled" ELSE "")) : b \in dis}
           \cup FailIf(\E g \in got : \A b \in SeqToSet(chain) : b.height # g, V("SearchExact", "item_never_committed"))
           \cup FailIf(Cardinality(got) # Len(e.heights), V("SearchExact", "item_returned_twice"))
     /\ UNCHANGED <<chain, txdb, blkdb, direct, users, pubd>>

Step ==
  /\ l <= Len(Trace)
  /\ LET e == Trace[l] IN
       CASE e.ev = "Reset"       -> StepReset(e)
         [] e.ev = "Block"       -> StepBlock(e)
         [] e.ev = "TxSearch"    -> StepTxSearch(e)
         [] e.ev = "BlockSearch" -> StepBlockSearch(e)
  /\ l' = l + 1

Finish ==
  /\ l = Len(Trace) + 1
  /\ WriteVerdict("verdict.json", Len(Trace), viol, drift)
  /\ l' = l + 1
  /\ UNCHANGED <<chain, txdb, blkdb, direct, users, pubd, viol, drift>>

Next == Step \/ Finish
=============================================================================
