--------------------------- MODULE TMEvidenceTrace ---------------------------
(* Trace validation for C11: behaviour OBSERVED on the real evidence.Pool
   (harness/inpkg/evidence/zz_verif_c11*_test.go) judged against TMEvidence.

   A run starts with a Reset line that carries the context (chain facts + the abstract
   description of every evidence item the harness built as a real object, with the real
   key classes, DB order and byte sizes).  Every other line is one call on the real pool
   with its results and the pool's projected state afterwards.
     drift : the observed step is not the step TMEvidence!Step computes   (conformance)
     viol  : a C11 property (TMEvidence!StateViol / StepViol) fails on the OBSERVED states *)
EXTENDS TMEvidence, TraceKit

Trace == LoadTrace("trace.ndjson")

VARIABLES l, c, p, viol, drift
vars == <<l, c, p, viol, drift>>

NoCtx == [N |-> 0]
Init == l = 1 /\ c = NoCtx /\ p = [size |-> 0] /\ viol = {} /\ drift = {}

Obs(post) ==
  [pending   |-> {post.pending[i].id : i \in DOMAIN post.pending},
   committed |-> Range(post.committed),
   list      |-> post.list,
   size      |-> post.size,
   buffer    |-> post.buffer,
   height    |-> post.height,
   pruneH    |-> post.pruneH,
   pruneT    |-> post.pruneT,
   tip       |-> post.tip,
   saved     |-> post.saved,
   startH    |-> post.startH,
   reported  |-> {},          \* ghost, carried by the trace spec (see StepCall)
   durable   |-> {},          \* ghost: evidence of durably applied blocks, carried by the trace spec
   upd       |-> NoUpd,       \* position inside a stopped Update: carried by the trace spec
   inflight  |-> {[tk |-> post.inflight[i].tk, id |-> post.inflight[i].id, h |-> post.inflight[i].h] : i \in DOMAIN post.inflight}]

D(what, spec) == [l |-> l, what |-> what, spec |-> spec]

\* projection sanity: DB order and key names as the context predicts them
ProjDrift(cc, post, q) ==
     FailIf([i \in DOMAIN post.pending |-> post.pending[i].id] # PendingSeq(cc, q), D("pending DB order differs from rank order", "order"))
\cup FailIf(\E i \in DOMAIN post.pending : post.pending[i].k # KeyOf(cc, post.pending[i].id), D("pending key/value mismatch", "key"))
\cup FailIf(post.ltime # TimeAt(cc, post.height), D("pool state time differs from chain time", "time"))
\* the age limits the pool's state carries are the ones expiry is judged against
\cup FailIf(<<post.A, post.D>> # <<ParamsAt(cc, post.height).A, ParamsAt(cc, post.height).D>>,
            D("pool state age limits differ from the chain's consensus params of that height", "params"))

StepReset(e) ==
  LET q == Obs(e.post) IN
  /\ c' = e.c
  /\ p' = q
  /\ drift' = drift \cup FailIf(q # InitPool(e.c), D("initial pool differs from InitPool", "init"))
  /\ viol' = viol \cup {[l |-> l, inv |-> i, class |-> "initial"] : i \in StateViol(e.c, q)}

Fld(what, x, y) == FailIf(x # y, D(what, "state"))

StepCall(e) ==
  LET a == [name |-> e.ev] @@ e
      q == Obs(e.post)
      r == Step(c, p, a)
      hasRes == TRUE      \* every call is logged with its outcome: ok | err | panic
      \* the observed state with the ghosts the trace spec carries along
      qg == [q EXCEPT !.reported = r.p.reported, !.durable = r.p.durable,
                      !.upd = IF e.ev = "UpdateBegin" /\ e.stage = "finished" THEN NoUpd ELSE r.p.upd]
      bad == StateStepViol(c, p, qg) \cup StepViol(c, p, qg, a)
  IN
  /\ c' = c
  /\ p' = qg
  /\ drift' = drift
       \cup FailIf(\E i \in DOMAIN q.buffer : ~KnownPair(c, q.buffer[i]), D(e.ev \o ": consensus buffer holds a pair the context does not know", "pair"))
       \cup (IF e.ev = "Report" THEN FailIf(~KnownPair(c, e.pair), D("Report: unknown pair", "pair")) ELSE {})
       \cup Fld(e.ev \o ": pending differs", r.p.pending, q.pending)
       \cup Fld(e.ev \o ": committed differs", r.p.committed, q.committed)
       \cup Fld(e.ev \o ": clist differs", r.p.list, q.list)
       \cup Fld(e.ev \o ": size differs", r.p.size, q.size)
       \cup Fld(e.ev \o ": buffer differs", r.p.buffer, q.buffer)
       \cup Fld(e.ev \o ": height/tip/saved differs", <<r.p.height, r.p.tip, r.p.saved>>, <<q.height, q.tip, q.saved>>)
       \cup Fld(e.ev \o ": pruning marks differ", <<r.p.pruneH, r.p.pruneT>>, <<q.pruneH, q.pruneT>>)
       \cup Fld(e.ev \o ": inflight differs", r.p.inflight, q.inflight)
       \cup (IF hasRes THEN FailIf(r.res # e.res \/ r.why # e.why, D(e.ev \o ": result differs", r.res \o "/" \o r.why)) ELSE {})
       \cup (IF e.ev = "Update" THEN FailIf(<<e.A, e.D>> # <<ParamsAt(c, e.to).A, ParamsAt(c, e.to).D>>,
                                            D("Update: age limits of the new state differ from the context", "params")) ELSE {})
       \* parked at the harness's gate (after the look-ups) / waiting for pendingMtx (store step
       \* while the committing goroutine is inside its critical section)
       \cup (IF e.ev = "AddBegin" /\ e.how = "gate" THEN FailIf((e.stage = "parked") # AddLookups(c, p, e.id), D("AddBegin: look-ups differ", "lookups")) ELSE {})
       \cup (IF e.ev = "AddBegin" /\ e.how = "mutex" THEN FailIf(~AddBlocks(c, p, e.id), D("AddEvidence waits for the mutex although its store step is not locked out", "mutex")) ELSE {})
       \cup (IF e.ev = "Add" THEN FailIf(AddBlocks(c, p, e.id), D("AddEvidence completed although the committing goroutine holds the store mutex", "mutex")) ELSE {})
       \cup (IF e.ev = "UpdateBegin" THEN FailIf((e.stage = "paused") # (Pausable(e.ids, e.k) /\ e.res # "panic"),
                                                 D("UpdateBegin: number of committed-marker writes differs", "markers")) ELSE {})
       \cup (IF e.ev = "Pending"
             THEN LET pe == PendingEvidence(c, p, e.mb) IN
                  FailIf(pe.got # e.got \/ pe.bytes # e.bytes, D("Pending: result differs", "pending"))
             ELSE {})
       \cup ProjDrift(c, e.post, q)
  /\ viol' = viol \cup {[l |-> l, inv |-> i, class |-> ClassOf(c, p, q, a, i)] : i \in bad}

\* the pure verification function on items that cannot reach the pool (ValidateBasic fails)
StepVerifyDV(e) ==
  /\ UNCHANGED <<c, p, viol>>
  /\ drift' = drift \cup (IF IsDv(c, e.id)
                          THEN FailIf(~e.novals /\ (e.res = "ok") # DvProves(c, c.dv[e.id]), D("VerifyDuplicateVote differs", "dv"))
                          ELSE {D("VerifyDV: unknown item", "dv")})

StepRestartFailed(e) ==
  /\ UNCHANGED <<c, p, drift>>
  /\ viol' = viol \cup {[l |-> l, inv |-> "SurvivesRestart", class |-> "restart-failed"]}

Step1 ==
  /\ l <= Len(Trace)
  /\ LET e == Trace[l] IN
       CASE e.ev = "Reset"         -> StepReset(e)
         [] e.ev = "VerifyDV"      -> StepVerifyDV(e)
         [] e.ev = "RestartFailed" -> StepRestartFailed(e)
         [] OTHER                  -> StepCall(e)
  /\ l' = l + 1

Finish ==
  /\ l = Len(Trace) + 1
  /\ WriteVerdict("verdict.json", Len(Trace), viol, drift)
  /\ l' = l + 1
  /\ UNCHANGED <<c, p, viol, drift>>

Next == Step1 \/ Finish
=============================================================================
