CONSTANTS
  Weak_SkipTrustLevel = FALSE
  Weak_AdjacentIgnoresNextVals = FALSE
  Weak_NoExpiry = FALSE
  Weak_FutureHeaderOK = FALSE
  Weak_TrustLevelOnNewSet = FALSE
  Weak_MismatchAlsoCountsAsMatch = FALSE
  Weak_NoWitnessNeeded = FALSE
  Weak_BackwardsUnbound = FALSE
  Weak_ReplacementHashUnchecked = FALSE
  Weak_PromotedWitnessStays = FALSE
  Weak_PartialTraceOnBenignError = FALSE
  Weak_LaggingWitnessEqualTimeBenign = FALSE
  Weak_DivergentHeaderExaminedOncePerRun = FALSE
INIT Init
NEXT Next
CHECK_DEADLOCK FALSE
