---------------------------- MODULE TMReactorTrace ----------------------------
(* Trace validation for C17, hostile half: one observed outcome per executed case of
   TMReactorAlphabet!Cases (harness/inpkg/<reactor pkg>/zz_verif_c17*_test.go).

     Reset   {unit, reactor, kind, fc, ps, enc}          the case is about to be executed
     Hostile {.. same .., supported, sent, barrier, stopped, panic_caught, consensus_failure,
              replies, honest, probe, retained, cap}      what was observed
     Crash   {where}                                      the harness PROCESS died while the case
                                                          was executing (a panic outside every
                                                          production recover)
   Level 2 (viol): HostileOnlyDrops == TMReactorAlphabet!OutcomeAllowed on the observation.
   Level 1 (drift): the observed reaction is the one TMReactorAlphabet!Expect specifies.     *)
EXTENDS TMReactorAlphabet, TraceKit

Trace == LoadTrace("trace.ndjson")

VARIABLES l, cur, viol, drift
vars == <<l, cur, viol, drift>>

NoCase == [reactor |-> "none", kind |-> "none", fc |-> "none", ps |-> "none", enc |-> "none"]
Init == l = 1 /\ cur = NoCase /\ viol = {} /\ drift = {}

CaseOf(e) == [reactor |-> e.reactor, kind |-> e.kind, fc |-> e.fc, ps |-> e.ps, enc |-> e.enc]
Name(c) == c.reactor \o ":" \o c.kind \o ":" \o c.fc \o ":" \o c.ps \o ":" \o c.enc

StepReset(e) == cur' = CaseOf(e) /\ UNCHANGED <<viol, drift>>

StepHostile(e) ==
  LET c == CaseOf(e)
      want == Expect(c)
      got  == IF e.stopped THEN "stop" ELSE "keep"
  IN /\ cur' = c
     /\ viol' = viol \cup FailIf(e.supported /\ ~OutcomeAllowed(e),
                                 [l |-> l, inv |-> "HostileOnlyDrops", class |-> ViolationClass(e), case |-> Name(c)])
     /\ drift' = drift
          \cup FailIf(~e.supported, [l |-> l, what |-> "case not executed: " \o e.note])
          \cup FailIf(e.supported /\ c \notin Cases, [l |-> l, what |-> "case outside the alphabet"])
          \cup FailIf(e.supported /\ want # "any" /\ want # got,
                      [l |-> l, what |-> "reaction differs from spec: expected " \o want \o ", observed " \o got])

StepCrash(e) ==
  /\ viol' = viol \cup {[l |-> l, inv |-> "HostileOnlyDrops", class |-> "process_crash", case |-> Name(cur)]}
  /\ UNCHANGED <<cur, drift>>

Step ==
  /\ l <= Len(Trace)
  /\ LET e == Trace[l] IN
       CASE e.ev = "Reset"   -> StepReset(e)
         [] e.ev = "Hostile" -> StepHostile(e)
         [] e.ev = "Crash"   -> StepCrash(e)
  /\ l' = l + 1

Finish ==
  /\ l = Len(Trace) + 1
  /\ WriteVerdict("verdict.json", Len(Trace), viol, drift)
  /\ l' = l + 1
  /\ UNCHANGED <<cur, viol, drift>>

Next == Step \/ Finish
=============================================================================
