---------------------------- MODULE TMRemoteSigner ----------------------------
(* The remote-signer protocol of tendermint v0.34 (package privval) at the grain of its
   goroutines and locks: the node's SignerListenerEndpoint + SignerClient + RetrySignerClient,
   the signer's SignerDialerEndpoint + SignerServer + FilePV, the connections between them
   and the network as a scripted party.

   ---------------------------------------------------------------- what users rely on
   (derived from privval/doc.go, the doc comments of signer_client.go, retry_signer_client.go,
   signer_listener_endpoint.go, errors.go and from how consensus/state.go signVote /
   decideProposal and node/node.go createAndStartPrivValidatorSocketClient use the client)

   P1 RequestResponseMatching   A value that SignVote / SignProposal / GetPubKey hands back with a
        nil error is the signer's answer to THAT request: never the (late) answer to an earlier
        request, never a message of another kind; the signature put into vote V is a signature
        over V's sign bytes (with the timestamp that is handed back).        [ReturnOK]
   P2 ErrorSurfaced   A refusal of the signer (double-sign guard, wrong chain id) and a transport
        failure come back as an error, never as success with an empty or old signature; this
        includes Ping ("Ping sends a ping request to the remote signer", returns error).
                                                                             [ReturnOK]
   P3 NoConflictingSignatures   Whatever the node retries, the signer never signs two different
        messages for one (height, round, step).                              [NoConflict]
      RetryRule   RetrySignerClient ("adding retry for each operation (except Ping)"; "If remote
        signer errors, we don't retry") stops at the first RemoteSignerError and otherwise
        gives up only when its attempts are used up.                        [RetryStops, RetryExhausts]
   P4 Reconnect   "keeps the connection alive by dropping and reconnecting": an endpoint whose
        connection is dead gets rid of it, so that the signer dials again and a later request
        can be served.  Safety form: after a read or write on connection c failed, the signer
        does not use c again [NoDeadConnReuse]; liveness form: SignerRedials (a dead
        connection held by the signer leads to its release, under weak fairness of the
        signer's service loop).
   P5 ChainIdChecked   A request naming another chain id gets an error response and nothing is
        signed.                                                              [ChainChecked]
   P6 OneOutstandingRequest   On one connection at most one request is outstanding: SendRequest
        (write, then read) runs under instanceMtx, for pings too, so the bytes of a ping never
        interleave with a request and a response can only belong to the request just written.
                                                                             [OneOutstanding]

   ---------------------------------------------------------------- the parties
   Node goroutines
     c1   a caller (consensus) inside RetrySignerClient.<op> -> SignerClient.<op> ->
          SignerListenerEndpoint.SendRequest:     lock -> ensure -> (wait) -> write -> read
     pg   pingLoop: on a tick SendRequest(PingRequest); on error triggerReconnect =
          DropConnection (needs connMtx, which ReadMessage/WaitConnection hold while they
          block) then triggerConnect
     svc  serviceLoop: idle (receive on the UNBUFFERED connectRequestCh) -> accepting
          (listener.Accept) -> offering (send on connectionAvailableCh) -> post (the
          re-trigger `select { case connectRequestCh <- : default: }`, which can never succeed
          because this goroutine is the only receiver) -> idle
   Signer goroutine
     sg   SignerServer.serviceLoop: ensure (dial, with retries) -> read -> handle -> write
   Network: per connection two FIFO queues of whole messages (c2s, s2c), the listener's accept
   backlog, and the faults: a deadline that passes (read, write, accept, wait-for-connection),
   a dial that fails, a connection that is cut (queued bytes are lost).  A response that
   "arrives after the deadline" is a message left in s2c when ReadTimeout fires.
   Time is abstracted: every deadline may pass at any moment (budget MaxFaults).

   ---------------------------------------------------------------- the code as it is
   Weak_KeepConnOnError = TRUE and Weak_PingSwallowsError = TRUE describe /repo as it is
   (findings PRIVVAL-F1, PRIVVAL-F2, proposed-fixes/PRIVVAL-*.diff); the configs that must
   pass have them FALSE, PRIVVAL_asis_*.cfg have them TRUE and TLC must refute them.          *)
EXTENDS TMRemoteSignerOps

CONSTANTS
  Chain,            \* the chain id the signer server is configured with
  Calls,            \* set of requests the caller may issue
  MaxCalls, Retries, MaxPings, MaxConns, DialRetries, MaxFaults,
  Hostile,          \* the signer may answer with a message of its choice
  Prio,             \* replay mode: the environment acts only when no goroutine can move by itself (the real code, under
                    \* the harness' step control, always runs to quiescence between two decisions of the schedule)
  Weak_KeepConnOnError,       \* signerEndpoint.Read/WriteMessage keep se.conn after a non-timeout error (AS IS)
  Weak_NoDropOnReadTimeout,   \* ReadMessage does not drop the connection when the deadline passed
  Weak_PingNoMutex            \* pingLoop's request does not take instanceMtx

VARIABLES
  conn,       \* node: signerEndpoint.conn (0 = nil)
  mtx,        \* node: holder of instanceMtx ("none")
  thr,        \* node: the two requesting goroutines
  svc,        \* node: serviceLoop  [pc, c]
  backlog,    \* listener: connections dialled and not yet accepted
  conns,      \* network: connection id -> [c2s, s2c, nclosed, sclosed, cut]
  nconn,      \* connections dialled so far
  sg,         \* signer: serviceLoop [pc, c, id, q, m, fails, errs]
  lss,        \* signer: FilePV.LastSignState
  signedSet,  \* ghost: every message the signer put a signature on
  nreq, ncalls, npings, nfaults,
  bad,        \* ghost: names of the properties broken by the steps taken so far
  act

vars == <<conn, mtx, thr, svc, backlog, conns, nconn, sg, lss, signedSet, nreq, ncalls, npings, nfaults, bad, act>>

Threads == {"c1", "pg"}
NoConn == [c2s |-> << >>, s2c |-> << >>, nclosed |-> FALSE, sclosed |-> FALSE, cut |-> FALSE]
ThrIdle == [pc |-> "idle", q |-> NoQ, att |-> 0, id |-> 0, sawRemote |-> FALSE]
SgInit == [pc |-> "ensure", c |-> 0, id |-> 0, q |-> NoQ, m |-> NoResp, fails |-> 0, errs |-> 0]

Init ==
  /\ conn = 0 /\ mtx = "none" /\ thr = [t \in Threads |-> ThrIdle]
  /\ svc = [pc |-> "accepting", c |-> 0]        \* OnStart: connectRequestCh <- struct{}{}
  /\ backlog = << >> /\ conns = [c \in 1..MaxConns |-> NoConn] /\ nconn = 0
  /\ sg = SgInit /\ lss = EmptyLSS /\ signedSet = {}
  /\ nreq = 0 /\ ncalls = 0 /\ npings = 0 /\ nfaults = 0 /\ bad = {}
  /\ act = [name |-> "Init"]

Fault == nfaults < MaxFaults /\ nfaults' = nfaults + 1
NoFault == nfaults' = nfaults
Mark(cond, name) == IF cond THEN {} ELSE {name}

\* connMtx is held for the whole of a blocking ReadMessage / WaitConnection
ConnMtxBusy == \E t \in Threads : thr[t].pc \in {"wait", "read"}

\* signerEndpoint.dropConnection on the node side
NodeDrop(cs) == IF conn = 0 THEN cs ELSE [cs EXCEPT ![conn].nclosed = TRUE]

\* ------------------------------------------------------------------ node: a request
StartCall(q) ==
  /\ thr["c1"].pc = "idle" /\ ncalls < MaxCalls
  /\ thr' = [thr EXCEPT !["c1"] = [pc |-> "lock", q |-> q, att |-> 1, id |-> 0, sawRemote |-> FALSE]]
  /\ ncalls' = ncalls + 1
  /\ act' = [name |-> "StartCall", q |-> q]
  /\ UNCHANGED <<conn, mtx, svc, backlog, conns, nconn, sg, lss, signedSet, nreq, npings, nfaults, bad>>

PingTick ==        \* pingLoop: case <-sl.pingTimer.C
  /\ thr["pg"].pc = "idle" /\ npings < MaxPings
  /\ thr' = [thr EXCEPT !["pg"] = [pc |-> "lock", q |-> PingQ, att |-> 1, id |-> 0, sawRemote |-> FALSE]]
  /\ npings' = npings + 1
  /\ act' = [name |-> "PingTick"]
  /\ UNCHANGED <<conn, mtx, svc, backlog, conns, nconn, sg, lss, signedSet, nreq, ncalls, nfaults, bad>>

Lock(t) ==         \* SendRequest: sl.instanceMtx.Lock()
  /\ thr[t].pc = "lock"
  /\ IF Weak_PingNoMutex /\ t = "pg" THEN mtx' = mtx ELSE mtx = "none" /\ mtx' = t
  /\ thr' = [thr EXCEPT ![t].pc = "ensure"]
  /\ act' = [name |-> "Lock", t |-> t]
  /\ UNCHANGED <<conn, svc, backlog, conns, nconn, sg, lss, signedSet, nreq, ncalls, npings, nfaults, bad>>

\* triggerConnect: non-blocking send on the unbuffered channel - taken only if serviceLoop is parked in its receive
Triggered(s) == IF s.pc = "idle" THEN [s EXCEPT !.pc = "accepting"] ELSE s

Ensure(t) ==       \* ensureConnection: IsConnected / GetAvailableConnection / triggerConnect
  /\ thr[t].pc = "ensure"
  /\ IF conn # 0 THEN
       /\ thr' = [thr EXCEPT ![t].pc = "write"] /\ UNCHANGED <<conn, svc>>
       /\ act' = [name |-> "Ensure", t |-> t, how |-> "connected"]
     ELSE IF svc.pc = "offering" THEN
       /\ conn' = svc.c /\ svc' = [pc |-> "post", c |-> 0]
       /\ thr' = [thr EXCEPT ![t].pc = "write"]
       /\ act' = [name |-> "Ensure", t |-> t, how |-> "available"]
     ELSE
       /\ svc' = Triggered(svc) /\ conn' = conn
       /\ thr' = [thr EXCEPT ![t].pc = "wait"]
       /\ act' = [name |-> "Ensure", t |-> t, how |-> "wait"]
  /\ UNCHANGED <<mtx, backlog, conns, nconn, sg, lss, signedSet, nreq, ncalls, npings, nfaults, bad>>

(* the end of one attempt of thread t: tr = transport outcome, m = response read, own = m answers
   the request written in this attempt.  Releases instanceMtx.                                  *)
EndAttempt(t, tr, m, own, via) ==
  LET me == thr[t] IN
  /\ mtx' = IF mtx = t THEN "none" ELSE mtx
  /\ IF t = "pg" THEN
       /\ thr' = [thr EXCEPT ![t] = IF tr = "ok" THEN ThrIdle ELSE [ThrIdle EXCEPT !.pc = "reconn"]]
       /\ act' = [name |-> "PingDone", tr |-> tr, via |-> via, t |-> t]
       /\ bad' = bad
     ELSE
       LET i == Interpret(me.q, tr, m)
           d == RetryDecision(me.q, i.res, me.att, Retries)
           final == FinalRes(me.q, i.res, me.att, Retries)
       IN IF d = "retry" THEN
            /\ thr' = [thr EXCEPT ![t] = [me EXCEPT !.pc = "lock", !.att = me.att + 1, !.id = 0,
                                                     !.sawRemote = me.sawRemote \/ i.res = "remote_err"]]
            /\ act' = [name |-> "Retry", q |-> me.q, res |-> i.res, att |-> me.att, via |-> via, t |-> t]
            /\ bad' = bad \cup Mark(i.res # "remote_err", "RetryStops")
          ELSE
            /\ thr' = [thr EXCEPT ![t] = ThrIdle]
            /\ act' = [name |-> "Return", q |-> me.q, res |-> final, out |-> i.out, tr |-> tr, m |-> m, own |-> own, att |-> me.att, via |-> via, t |-> t]
            /\ bad' = bad \cup Mark(ReturnOK(me.q, final, i.out, tr, m, own), IF Hostile THEN "ReturnOK_hostile" ELSE "ReturnOK")
                          \cup Mark(Hostile => (final = "ok" /\ me.q.k # "ping" => tr = "ok" /\ m.k = ExpectedKind(me.q) /\ m.err = "none"), "KindChecked")
                          \cup Mark(final \notin {"ok", "remote_err"} /\ me.q.k # "ping" => me.att >= Retries, "RetryExhausts")

WaitGot(t) ==      \* WaitConnection: case se.conn = <-connectionAvailableCh
  /\ thr[t].pc = "wait" /\ svc.pc = "offering"
  /\ conn' = svc.c /\ svc' = [pc |-> "post", c |-> 0]
  /\ thr' = [thr EXCEPT ![t].pc = "write"]
  /\ act' = [name |-> "WaitGot", t |-> t]
  /\ UNCHANGED <<mtx, backlog, conns, nconn, sg, lss, signedSet, nreq, ncalls, npings, nfaults, bad>>

WaitTimeout(t) ==  \* WaitConnection: case <-time.After(maxWait) -> ErrConnectionTimeout
  /\ thr[t].pc = "wait" /\ svc.pc # "offering" /\ Fault
  /\ EndAttempt(t, "conn_timeout", NoResp, FALSE, "WaitTimeout")
  /\ UNCHANGED <<conn, svc, backlog, conns, nconn, sg, lss, signedSet, nreq, ncalls, npings>>

Outstanding(c) == Len(conns[c].c2s) + Len(conns[c].s2c) + (IF sg.c = c /\ sg.pc \in {"handle", "write"} THEN 1 ELSE 0)

Write(t) ==        \* signerEndpoint.WriteMessage(request)
  /\ thr[t].pc = "write" /\ NoFault
  /\ IF conn = 0 THEN
       /\ EndAttempt(t, "no_conn", NoResp, FALSE, "Write") /\ UNCHANGED <<conn, conns, nreq>>
     ELSE IF conns[conn].cut \/ conns[conn].sclosed THEN         \* write on a dead connection: not a timeout
       /\ EndAttempt(t, "write_err", NoResp, FALSE, "Write")
       /\ IF Weak_KeepConnOnError THEN UNCHANGED <<conn, conns>> ELSE conns' = NodeDrop(conns) /\ conn' = 0
       /\ nreq' = nreq
     ELSE
       /\ nreq' = nreq + 1
       /\ conns' = [conns EXCEPT ![conn].c2s = Append(@, [id |-> nreq + 1, q |-> thr[t].q])]
       /\ thr' = [thr EXCEPT ![t].pc = "read", ![t].id = nreq + 1]
       /\ act' = [name |-> "Write", t |-> t, c |-> conn, id |-> nreq + 1]
       /\ bad' = bad \cup Mark(Outstanding(conn) = 0, "OneOutstanding")
       /\ UNCHANGED <<conn, mtx>>
  /\ UNCHANGED <<svc, backlog, nconn, sg, lss, signedSet, ncalls, npings>>

WriteTimeout(t) == \* the write deadline passes: dropConnection, ErrWriteTimeout; nothing reaches the peer
  /\ thr[t].pc = "write" /\ conn # 0 /\ ~conns[conn].cut /\ ~conns[conn].sclosed /\ Fault
  /\ EndAttempt(t, "write_timeout", NoResp, FALSE, "WriteTimeout")
  /\ conns' = NodeDrop(conns) /\ conn' = 0
  /\ UNCHANGED <<svc, backlog, nconn, sg, lss, signedSet, nreq, ncalls, npings>>

ReadOK(t) ==       \* signerEndpoint.ReadMessage: one whole message
  /\ thr[t].pc = "read" /\ conn # 0 /\ conns[conn].s2c # << >> /\ NoFault
  /\ LET x == Head(conns[conn].s2c) IN
       /\ conns' = [conns EXCEPT ![conn].s2c = Tail(@)]
       /\ EndAttempt(t, "ok", x.m, x.id = thr[t].id, "ReadOK")
  /\ UNCHANGED <<conn, svc, backlog, nconn, sg, lss, signedSet, nreq, ncalls, npings>>

ReadTimeout(t) ==  \* the read deadline passes (a response may be under way): dropConnection, ErrReadTimeout
  /\ thr[t].pc = "read" /\ conn # 0 /\ Fault
  /\ EndAttempt(t, "read_timeout", NoResp, FALSE, "ReadTimeout")
  /\ IF Weak_NoDropOnReadTimeout THEN UNCHANGED <<conn, conns>> ELSE conns' = NodeDrop(conns) /\ conn' = 0
  /\ UNCHANGED <<svc, backlog, nconn, sg, lss, signedSet, nreq, ncalls, npings>>

ReadEOF(t) ==      \* the peer closed / the connection was cut: io.EOF, not a timeoutError
  /\ thr[t].pc = "read" /\ NoFault
  /\ \/ conn = 0
     \/ conn # 0 /\ conns[conn].s2c = << >> /\ (conns[conn].cut \/ conns[conn].sclosed)
  /\ EndAttempt(t, IF conn = 0 THEN "no_conn" ELSE "eof", NoResp, FALSE, "ReadEOF")
  /\ IF Weak_KeepConnOnError \/ conn = 0 THEN UNCHANGED <<conn, conns>> ELSE conns' = NodeDrop(conns) /\ conn' = 0
  /\ UNCHANGED <<svc, backlog, nconn, sg, lss, signedSet, nreq, ncalls, npings>>

ReconnDrop ==      \* pingLoop: triggerReconnect -> DropConnection (blocks on connMtx), then triggerConnect
  /\ thr["pg"].pc = "reconn" /\ ~ConnMtxBusy
  /\ conns' = NodeDrop(conns) /\ conn' = 0
  /\ svc' = Triggered(svc)
  /\ thr' = [thr EXCEPT !["pg"] = ThrIdle]
  /\ act' = [name |-> "ReconnDrop", c |-> conn]
  /\ UNCHANGED <<mtx, backlog, nconn, sg, lss, signedSet, nreq, ncalls, npings, nfaults, bad>>

\* ------------------------------------------------------------------ node: serviceLoop
SvcAccept ==
  /\ svc.pc = "accepting" /\ backlog # << >>
  /\ svc' = [pc |-> "offering", c |-> Head(backlog)] /\ backlog' = Tail(backlog)
  /\ act' = [name |-> "SvcAccept", c |-> Head(backlog)]
  /\ UNCHANGED <<conn, mtx, thr, conns, nconn, sg, lss, signedSet, nreq, ncalls, npings, nfaults, bad>>

SvcAcceptTimeout ==   \* the listener's accept deadline passes
  /\ svc.pc = "accepting" /\ backlog = << >> /\ Fault
  /\ svc' = [pc |-> "post", c |-> 0]
  /\ act' = [name |-> "SvcAcceptTimeout"]
  /\ UNCHANGED <<conn, mtx, thr, backlog, conns, nconn, sg, lss, signedSet, nreq, ncalls, npings, bad>>

SvcPost ==            \* the re-trigger on the unbuffered channel falls through to default
  /\ svc.pc = "post"
  /\ svc' = [pc |-> "idle", c |-> 0]
  /\ act' = [name |-> "SvcPost"]
  /\ UNCHANGED <<conn, mtx, thr, backlog, conns, nconn, sg, lss, signedSet, nreq, ncalls, npings, nfaults, bad>>

\* ------------------------------------------------------------------ signer: SignerServer.serviceLoop
SgnDrop(cs) == IF sg.c = 0 THEN cs ELSE [cs EXCEPT ![sg.c].sclosed = TRUE]

SgnDial ==            \* SignerDialerEndpoint.ensureConnection: dialer() succeeds as soon as the listener queues it
  /\ sg.pc = "ensure" /\ sg.c = 0 /\ nconn < MaxConns /\ NoFault
  /\ nconn' = nconn + 1 /\ backlog' = Append(backlog, nconn + 1)
  /\ sg' = [SgInit EXCEPT !.pc = "read", !.c = nconn + 1]
  /\ act' = [name |-> "SgnDial", c |-> nconn + 1]
  /\ UNCHANGED <<conn, mtx, thr, svc, conns, lss, signedSet, nreq, ncalls, npings, bad>>

SgnDialFail ==        \* retries++ ; after maxConnRetries failures the service loop RETURNS (the server stays "running")
  /\ sg.pc = "ensure" /\ sg.c = 0 /\ Fault
  /\ sg' = IF sg.fails + 1 >= DialRetries THEN [sg EXCEPT !.pc = "dead", !.fails = sg.fails + 1] ELSE [sg EXCEPT !.fails = sg.fails + 1]
  /\ act' = [name |-> "SgnDialFail", gaveup |-> sg.fails + 1 >= DialRetries]
  /\ UNCHANGED <<conn, mtx, thr, svc, backlog, conns, nconn, lss, signedSet, nreq, ncalls, npings, bad>>

SgnReadOK ==
  /\ sg.pc = "read" /\ sg.c # 0 /\ conns[sg.c].c2s # << >> /\ NoFault
  /\ LET x == Head(conns[sg.c].c2s) IN
       /\ conns' = [conns EXCEPT ![sg.c].c2s = Tail(@)]
       /\ sg' = [sg EXCEPT !.pc = "handle", !.id = x.id, !.q = x.q]
       /\ act' = [name |-> "SgnReadOK", c |-> sg.c, id |-> x.id]
  /\ bad' = bad \cup Mark(sg.errs = 0, "NoDeadConnReuse")
  /\ UNCHANGED <<conn, mtx, thr, svc, backlog, nconn, lss, signedSet, nreq, ncalls, npings>>

SgnReadTimeout ==     \* no request (no ping) within timeoutReadWrite: dropConnection, then dial again
  /\ sg.pc = "read" /\ sg.c # 0 /\ Fault
  /\ conns' = SgnDrop(conns)
  /\ sg' = SgInit
  /\ act' = [name |-> "SgnReadTimeout", c |-> sg.c]
  /\ UNCHANGED <<conn, mtx, thr, svc, backlog, nconn, lss, signedSet, nreq, ncalls, npings, bad>>

SgnReadEOF ==         \* the node closed / the connection was cut: io.EOF.  AS IS the connection is kept and
                      \* serviceLoop comes round to read it again, for ever (errs counts, capped at 2)
  /\ sg.pc = "read" /\ sg.c # 0 /\ conns[sg.c].c2s = << >> /\ (conns[sg.c].cut \/ conns[sg.c].nclosed) /\ NoFault
  /\ IF Weak_KeepConnOnError
     THEN /\ sg' = [sg EXCEPT !.errs = IF @ < 2 THEN @ + 1 ELSE 2] /\ conns' = conns
     ELSE /\ sg' = SgInit /\ conns' = SgnDrop(conns)
  /\ act' = [name |-> "SgnReadEOF", c |-> sg.c]
  /\ bad' = bad \cup Mark(sg.errs = 0, "NoDeadConnReuse")
  /\ UNCHANGED <<conn, mtx, thr, svc, backlog, nconn, lss, signedSet, nreq, ncalls, npings>>

\* what a hostile signer may answer instead of the honest response r to request q
HostileResps(q, r) ==
  {r, Resp("empty", "none", NoOut), Resp(IF ExpectedKind(q) = "ping" THEN "pubkey" ELSE "ping", "none", NoOut)}
  \cup (IF q.k = "sign" THEN {Resp(ExpectedKind(q), "none", [v |-> "Z", ts |-> q.ts, sig |-> Sig(SB([q EXCEPT !.v = "Z"]))])} ELSE {})

SgnHandle ==          \* servicePendingRequest: validationRequestHandler(privVal, req, chainID) under handlerMtx
  /\ sg.pc = "handle"
  /\ LET h == HandleReq(lss, sg.q, Chain) IN
       /\ lss' = h.lss
       /\ \E r \in (IF Hostile THEN HostileResps(sg.q, h.resp) ELSE {h.resp}) :
            /\ sg' = [sg EXCEPT !.pc = "write", !.m = r]
            /\ act' = [name |-> "SgnHandle", q |-> sg.q, resp |-> r, signed |-> h.signed]
       /\ signedSet' = IF h.signed THEN signedSet \cup {Rel(sg.q, h.resp.out)} ELSE signedSet
       /\ bad' = bad \cup Mark(sg.q.k \in {"sign", "pubkey"} /\ sg.q.chain # Chain => h.resp.err # "none" /\ ~h.signed /\ h.lss = lss, "ChainChecked")
                     \cup Mark(h.signed => NoConflictIn(signedSet \cup {Rel(sg.q, h.resp.out)}), "NoConflict")
  /\ UNCHANGED <<conn, mtx, thr, svc, backlog, conns, nconn, nreq, ncalls, npings, nfaults>>

SgnWrite ==           \* endpoint.WriteMessage(res)
  /\ sg.pc = "write" /\ NoFault
  /\ IF conns[sg.c].cut \/ conns[sg.c].nclosed THEN
       /\ IF Weak_KeepConnOnError
          THEN /\ sg' = [sg EXCEPT !.pc = "read", !.errs = IF @ < 2 THEN @ + 1 ELSE 2, !.q = NoQ, !.m = NoResp, !.id = 0] /\ conns' = conns
          ELSE /\ sg' = SgInit /\ conns' = SgnDrop(conns)
       /\ act' = [name |-> "SgnWrite", c |-> sg.c, res |-> "err"]
     ELSE
       /\ conns' = [conns EXCEPT ![sg.c].s2c = Append(@, [id |-> sg.id, m |-> sg.m])]
       /\ sg' = [sg EXCEPT !.pc = "read", !.q = NoQ, !.m = NoResp, !.id = 0]
       /\ act' = [name |-> "SgnWrite", c |-> sg.c, res |-> "ok"]
  /\ bad' = bad \cup Mark(sg.errs = 0, "NoDeadConnReuse")
  /\ UNCHANGED <<conn, mtx, thr, svc, backlog, nconn, lss, signedSet, nreq, ncalls, npings>>

\* ------------------------------------------------------------------ network
Cut(c) ==
  /\ c \in 1..nconn /\ ~conns[c].cut /\ ~(conns[c].nclosed /\ conns[c].sclosed) /\ Fault
  /\ conns' = [conns EXCEPT ![c].cut = TRUE, ![c].c2s = << >>, ![c].s2c = << >>]
  /\ act' = [name |-> "Cut", c |-> c]
  /\ UNCHANGED <<conn, mtx, thr, svc, backlog, nconn, sg, lss, signedSet, nreq, ncalls, npings, bad>>

NodeStep == \/ \E q \in Calls : StartCall(q)
            \/ PingTick
            \/ \E t \in Threads : Lock(t) \/ Ensure(t) \/ WaitGot(t) \/ WaitTimeout(t) \/ Write(t) \/ WriteTimeout(t)
                                  \/ ReadOK(t) \/ ReadTimeout(t) \/ ReadEOF(t)
            \/ ReconnDrop \/ SvcAccept \/ SvcAcceptTimeout \/ SvcPost
SignerStep == SgnDial \/ SgnDialFail \/ SgnReadOK \/ SgnReadTimeout \/ SgnReadEOF \/ SgnHandle \/ SgnWrite
\* steps a goroutine takes without waiting for the network or a timer
InternalStep == (\E t \in Threads : Lock(t) \/ Ensure(t) \/ WaitGot(t)) \/ ReconnDrop \/ SvcPost \/ SgnHandle
InternalEnabled ==
  \/ \E t \in Threads : \/ (thr[t].pc = "lock" /\ (mtx = "none" \/ (Weak_PingNoMutex /\ t = "pg")))
                         \/ thr[t].pc = "ensure"
                         \/ (thr[t].pc = "wait" /\ svc.pc = "offering")
  \/ (thr["pg"].pc = "reconn" /\ ~ConnMtxBusy)
  \/ svc.pc = "post" \/ sg.pc = "handle"
Next == IF Prio /\ InternalEnabled THEN InternalStep
        ELSE NodeStep \/ SignerStep \/ \E c \in 1..MaxConns : Cut(c)

Spec == Init /\ [][Next]_vars
\* the signer's service loop keeps running (weak fairness of its fault-free steps)
FairSpec == Spec /\ WF_vars(SgnDial) /\ WF_vars(SgnReadOK) /\ WF_vars(SgnReadEOF) /\ WF_vars(SgnHandle) /\ WF_vars(SgnWrite)

\* ------------------------------------------------------------------ properties
ReturnOKInv      == "ReturnOK" \notin bad            \* P1 + P2
KindChecked      == "KindChecked" \notin bad         \* what is left of P1 against a hostile signer
NoConflict       == "NoConflict" \notin bad /\ NoConflictIn(signedSet)     \* P3
RetryStops       == "RetryStops" \notin bad
RetryExhausts    == "RetryExhausts" \notin bad
NoDeadConnReuse  == "NoDeadConnReuse" \notin bad     \* P4, safety form
ChainChecked     == "ChainChecked" \notin bad        \* P5
OneOutstanding   == "OneOutstanding" \notin bad /\ (~Hostile => \A c \in 1..MaxConns : Outstanding(c) <= 1)   \* P6

MutexInv == /\ \A t \in Threads : thr[t].pc \in {"ensure", "wait", "write", "read"} /\ ~(Weak_PingNoMutex /\ t = "pg") => mtx = t
            /\ mtx # "none" => thr[mtx].pc \in {"ensure", "wait", "write", "read"}
ConnInv  == /\ conn # 0 => conn \in 1..nconn /\ ~conns[conn].nclosed
            /\ sg.c # 0 => sg.c \in 1..nconn /\ ~conns[sg.c].sclosed
            /\ svc.pc = "offering" <=> svc.c # 0
            /\ \A i \in 1..Len(backlog) : backlog[i] # conn /\ backlog[i] # svc.c
\* the signer's file state only moves forward and holds what was signed last
SignerStateInv == \A x \in signedSet : LssLeq([h |-> x.h, r |-> x.r, s |-> x.s], lss)

\* P4, liveness form: a dead connection in the signer's hands is eventually released
DeadAtSigner == sg.c # 0 /\ sg.pc = "read" /\ conns[sg.c].c2s = << >> /\ (conns[sg.c].cut \/ conns[sg.c].nclosed)
SignerRedials == DeadAtSigner ~> ~DeadAtSigner

View == <<conn, mtx, thr, svc, backlog, conns, nconn, sg, lss, signedSet, nreq, ncalls, npings, nfaults, bad>>
=============================================================================
