------------------------------ MODULE TMSigner ------------------------------
(* The file-backed validator signer of privval/file.go, as operators over values.

   FilePVLastSignState {Height, Round, Step, SignBytes, Signature} is the record
     lss = [h, r, s, sb, sig]
   where sb (the canonical sign bytes of types.VoteSignBytes / ProposalSignBytes) is the
   record [t, h, r, v, ts]:  t message type, v the "block class" (BlockID, and POLRound for
   proposals; "nil" for a nil vote) and ts the timestamp.  ed25519 signing is deterministic
   and assumed unforgeable, so a signature is *identified with the sign bytes it was
   computed over*:  Sig(sb) == sb.  "Two signatures over different blocks" is therefore
   "two sig records with different v".

   This module has no variables.  It is used by
     TMSignerPV    the FilePV alone on its two files, with crashes inside saveSigned
     TMSignCrash   the whole signing pipeline of consensus/state.go with WAL and replay
     TMSignerTrace validation of behaviour observed on the real code                      *)
EXTENDS Integers, Sequences, FiniteSets, TLC

CONSTANTS
  Weak_ReleaseBeforeSave,            \* the signature is handed back before saveSigned persisted it
  Weak_CheckHRSIgnoresStep,          \* CheckHRS compares height and round only
  Weak_SameHRSResigns,               \* same HRS, different block: signs again instead of "conflicting data"
  Weak_TimestampOnlyComparesNothing, \* checkVotesOnlyDifferByTimestamp says "ok" for any pair
  Weak_LoadResetsState,              \* LoadFilePV comes up with an empty last-sign state
  Weak_NoFlushBeforeSign             \* signVote/decideProposal do not wal.FlushAndSync() first

Nil == "nil"

\* privval/file.go: stepPropose = 1, stepPrevote = 2, stepPrecommit = 3 (voteToStep)
StepOf(t) == CASE t = "proposal" -> 1 [] t = "prevote" -> 2 [] t = "precommit" -> 3 [] OTHER -> 0
TypeOfStep(s) == CASE s = 1 -> "proposal" [] s = 2 -> "prevote" [] s = 3 -> "precommit" [] OTHER -> "none"

\* canonical sign bytes of a request [t, h, r, v, ts]
SB(req) == [t |-> req.t, h |-> req.h, r |-> req.r, v |-> req.v, ts |-> req.ts]
NoSB    == [t |-> "none", h |-> 0, r |-> 0, v |-> Nil, ts |-> 0]
Sig(sb) == sb
NoSig   == NoSB

\* NewFilePV / Reset(): Step = stepNone, no sign bytes
EmptyLSS == [h |-> 0, r |-> 0, s |-> 0, sb |-> NoSB, sig |-> NoSig]

\* lexicographic order on (h, r, s)
HRSLt(h1, r1, s1, h2, r2, s2) == h1 < h2 \/ (h1 = h2 /\ (r1 < r2 \/ (r1 = r2 /\ s1 < s2)))
LssLeq(a, b) == ~HRSLt(b.h, b.r, b.s, a.h, a.r, a.s)

(* FilePVLastSignState.CheckHRS(height, round, step) -> (sameHRS bool, err)
   "new"   = (false, nil)   "same" = (true, nil)   everything else is the error returned *)
CheckHRS(lss, h, r, s) ==
  IF lss.h > h THEN "err_height"
  ELSE IF lss.h = h THEN
    IF lss.r > r THEN "err_round"
    ELSE IF lss.r = r /\ ~Weak_CheckHRSIgnoresStep THEN
      IF lss.s > s THEN "err_step"
      ELSE IF lss.s = s THEN (IF lss.sb # NoSB THEN "same" ELSE "err_nosignbytes")
      ELSE "new"
    ELSE "new"
  ELSE "new"

\* checkVotesOnlyDifferByTimestamp / checkProposalsOnlyDifferByTimestamp
OnlyTsDiffer(old, new) ==
  \/ Weak_TimestampOnlyComparesNothing
  \/ (old.t = new.t /\ old.h = new.h /\ old.r = new.r /\ old.v = new.v)

NoOut == [v |-> Nil, ts |-> 0, sig |-> NoSig]

(* FilePV.signVote / signProposal up to (not including) the persistence in saveSigned.
   kind: "err"      nothing signed, nothing returned (err names the error)
         "reuse"    identical sign bytes: the stored signature is returned
         "reuse_ts" only the timestamp differs: stored timestamp AND signature are returned
         "new"      a fresh signature; lss is what saveSigned puts into memory and then
                    onto disk (temp file, rename) before the call returns
   out = what the caller gets back in the message: block class, timestamp, signature    *)
SignResult(lss, req) ==
  LET c  == CheckHRS(lss, req.h, req.r, StepOf(req.t))
      sb == SB(req)
      fresh == [kind |-> "new", err |-> "none",
                lss |-> [h |-> req.h, r |-> req.r, s |-> StepOf(req.t), sb |-> sb, sig |-> Sig(sb)],
                out |-> [v |-> req.v, ts |-> req.ts, sig |-> Sig(sb)]]
  IN IF c = "new" THEN fresh
     ELSE IF c = "same" THEN
       IF sb = lss.sb THEN
         [kind |-> "reuse", err |-> "none", lss |-> lss, out |-> [v |-> req.v, ts |-> req.ts, sig |-> lss.sig]]
       ELSE IF OnlyTsDiffer(lss.sb, sb) THEN
         [kind |-> "reuse_ts", err |-> "none", lss |-> lss, out |-> [v |-> req.v, ts |-> lss.sb.ts, sig |-> lss.sig]]
       ELSE IF Weak_SameHRSResigns THEN fresh
       ELSE [kind |-> "err", err |-> "err_conflict", lss |-> lss, out |-> NoOut]
     ELSE [kind |-> "err", err |-> c, lss |-> lss, out |-> NoOut]

\* LoadFilePV: reads the state file, ignores any write-file-atomic-* temp file
LoadLSS(file) == IF Weak_LoadResetsState THEN EmptyLSS ELSE file

\* what "released" holds: one record per message handed back with a nil error
Rel(req, out) == [t |-> req.t, h |-> req.h, r |-> req.r, s |-> StepOf(req.t),
                  v |-> out.v, ts |-> out.ts, sig |-> out.sig]

SameHRS(a, b) == a.h = b.h /\ a.r = b.r /\ a.s = b.s

(* C04.  All signatures released for one (height, round, step) are over the same block;
   where a later request differed in its timestamp the EARLIER timestamp and signature were
   handed back, so any two released messages of one HRS are identical.                     *)
Compatible(a, b) == SameHRS(a, b) => (a.v = b.v /\ a.ts = b.ts /\ a.sig = b.sig)
NoConflictIn(rel) == \A a, b \in rel : Compatible(a, b)

\* the sign-state file holds the HRS and the signature that is being handed back
Persisted(file, x) == file.h = x.h /\ file.r = x.r /\ file.s = x.s /\ file.sig = x.sig

\* a released signature is a signature over the message it is attached to
SigOverMessage(x) == x.sig = [t |-> x.t, h |-> x.h, r |-> x.r, v |-> x.v, ts |-> x.ts]

\* narrow description of how two released messages of one HRS differ (known-finding signatures)
ConflictClass(a, b) ==
  IF a.v # b.v THEN (IF a.sig = b.sig THEN "same_sig_different_block" ELSE "different_block")
  ELSE IF a.sig # b.sig THEN "same_block_resigned"
  ELSE "same_sig_different_timestamp"
=============================================================================
