------------------------------ MODULE TMValBig ------------------------------
(* Exact integer comparison and addition beyond TLC's 32-bit integers, for judging
   validator sets with voting powers near MaxTotalVotingPower = MaxInt64/8 (C08,
   "extreme powers").  An int64 is logged by the harness as
       [s |-> -1 | 0 | 1,  m |-> <<limb0, limb1, limb2>>]      (24-bit limbs, little endian)
   The operators below only compare, add and subtract; every level-2 judgement on extreme
   runs (order, limits, window, atomicity, order-independence, acceptance) is built from
   them, so no arithmetic oracle for the priorities is needed (the priorities' exact values
   at this scale are NOT checked - stated as a limit in the evidence).                *)
EXTENDS Integers, Sequences

BigBase == 16777216
BigZero == [s |-> 0, m |-> <<0, 0, 0>>]
Limb(m, i) == IF i <= Len(m) THEN m[i] ELSE 0
LMax(a, b) == IF a >= b THEN a ELSE b

\* compare magnitudes from limb i downwards: -1, 0, 1
RECURSIVE MagCmpFrom(_, _, _)
MagCmpFrom(a, b, i) ==
  IF i = 0 THEN 0
  ELSE IF Limb(a, i) < Limb(b, i) THEN -1
  ELSE IF Limb(a, i) > Limb(b, i) THEN 1
  ELSE MagCmpFrom(a, b, i - 1)
MagCmp(a, b) == MagCmpFrom(a, b, LMax(Len(a), Len(b)))
MagIsZero(a) == \A i \in DOMAIN a : a[i] = 0

RECURSIVE MagAddFrom(_, _, _, _, _)
MagAddFrom(a, b, i, n, carry) ==
  IF i > n THEN <<carry>>
  ELSE LET t == Limb(a, i) + Limb(b, i) + carry IN
       <<t % BigBase>> \o MagAddFrom(a, b, i + 1, n, t \div BigBase)
MagAdd(a, b) == MagAddFrom(a, b, 1, LMax(Len(a), Len(b)), 0)

\* a - b for a >= b
RECURSIVE MagSubFrom(_, _, _, _, _)
MagSubFrom(a, b, i, n, borrow) ==
  IF i > n THEN << >>
  ELSE LET t == Limb(a, i) - Limb(b, i) - borrow IN
       IF t < 0 THEN <<t + BigBase>> \o MagSubFrom(a, b, i + 1, n, 1)
       ELSE <<t>> \o MagSubFrom(a, b, i + 1, n, 0)
MagSub(a, b) == MagSubFrom(a, b, 1, LMax(Len(a), Len(b)), 0)

Norm(s, m) == IF MagIsZero(m) THEN [s |-> 0, m |-> m] ELSE [s |-> s, m |-> m]
BigNeg(x) == [s |-> -x.s, m |-> x.m]
BigCmp(x, y) ==
  IF x.s # y.s THEN (IF x.s < y.s THEN -1 ELSE 1)
  ELSE IF x.s = 0 THEN 0
  ELSE IF x.s = 1 THEN MagCmp(x.m, y.m)
  ELSE MagCmp(y.m, x.m)
BigEq(x, y)   == BigCmp(x, y) = 0
BigLess(x, y) == BigCmp(x, y) < 0
BigLeq(x, y)  == BigCmp(x, y) <= 0
BigAdd(x, y) ==
  IF x.s = 0 THEN y
  ELSE IF y.s = 0 THEN x
  ELSE IF x.s = y.s THEN [s |-> x.s, m |-> MagAdd(x.m, y.m)]
  ELSE LET c == MagCmp(x.m, y.m) IN
       IF c = 0 THEN BigZero
       ELSE IF c > 0 THEN Norm(x.s, MagSub(x.m, y.m))
       ELSE Norm(y.s, MagSub(y.m, x.m))
BigSub(x, y) == BigAdd(x, BigNeg(y))
RECURSIVE BigSum(_)
BigSum(s) == IF s = << >> THEN BigZero ELSE BigAdd(s[1], BigSum(Tail(s)))
BigOfSmall(n) == IF n = 0 THEN BigZero ELSE IF n > 0 THEN [s |-> 1, m |-> <<n, 0, 0>>] ELSE [s |-> -1, m |-> <<-n, 0, 0>>]  \* |n| < 2^24

\* ------------------------------------------------------------------ validator sets in limb form
\* vals : sequence of [a |-> address, p |-> Big, pr |-> Big]
XPowers(vals) == [i \in DOMAIN vals |-> vals[i].p]
XPrios(vals)  == [i \in DOMAIN vals |-> vals[i].pr]
XTotal(vals)  == BigSum(XPowers(vals))
XPowerLess(x, y) == BigLess(y.p, x.p) \/ (BigEq(x.p, y.p) /\ x.a < y.a)
XWellFormedWhy(vals, max) ==
  IF Len(vals) = 0 THEN "empty"
  ELSE IF \E i, j \in DOMAIN vals : i # j /\ vals[i].a = vals[j].a THEN "duplicate_address"
  ELSE IF \E i \in DOMAIN vals : vals[i].p.s <= 0 THEN "zero_power_member"
  ELSE IF \E i \in 1..(Len(vals) - 1) : ~XPowerLess(vals[i], vals[i + 1]) THEN "not_canonical_order"
  ELSE IF BigLess(max, XTotal(vals)) THEN "total_above_max"
  ELSE "ok"
XMaxPrio(vals) == vals[CHOOSE i \in DOMAIN vals : \A j \in DOMAIN vals : BigLeq(vals[j].pr, vals[i].pr)].pr
XMinPrio(vals) == vals[CHOOSE i \in DOMAIN vals : \A j \in DOMAIN vals : BigLeq(vals[i].pr, vals[j].pr)].pr
\* window <= 2*total
XWindowOK(vals) ==
  LET t == XTotal(vals) IN BigLeq(BigSub(XMaxPrio(vals), XMinPrio(vals)), BigAdd(t, t))
\* 0 <= sum < n
XCentred(vals) ==
  LET s == BigSum(XPrios(vals)) IN s.s >= 0 /\ BigLess(s, BigOfSmall(Len(vals)))
XNoClip(vals, imax, imin) == \A i \in DOMAIN vals : ~BigEq(vals[i].pr, imax) /\ ~BigEq(vals[i].pr, imin)

\* reference acceptance of a batch (cf. TMValSet!RefAccepts), powers only
XHas(vals, a) == \E i \in DOMAIN vals : vals[i].a = a
XGet(vals, a) == vals[CHOOSE i \in DOMAIN vals : vals[i].a = a]
XRefMembers(vals, batch) ==
  LET removed == {batch[i].a : i \in {j \in DOMAIN batch : batch[j].p.s = 0}}
      added   == {batch[i].a : i \in {j \in DOMAIN batch : batch[j].p.s > 0 /\ ~XHas(vals, batch[j].a)}}
  IN ({vals[i].a : i \in DOMAIN vals} \ removed) \cup added
XNewPower(vals, batch, a) ==
  IF \E i \in DOMAIN batch : batch[i].a = a /\ batch[i].p.s > 0
  THEN batch[CHOOSE i \in DOMAIN batch : batch[i].a = a].p
  ELSE XGet(vals, a).p
RECURSIVE XSumOver(_, _, _)
XSumOver(vals, batch, S) ==
  IF S = {} THEN BigZero
  ELSE LET x == CHOOSE y \in S : TRUE IN BigAdd(XNewPower(vals, batch, x), XSumOver(vals, batch, S \ {x}))
XRefAccepts(vals, batch, max) ==
  /\ \A i, j \in DOMAIN batch : i # j => batch[i].a # batch[j].a
  /\ \A i \in DOMAIN batch : batch[i].p.s >= 0 /\ BigLeq(batch[i].p, max)
  /\ \A i \in DOMAIN batch : batch[i].p.s = 0 => XHas(vals, batch[i].a)
  /\ XRefMembers(vals, batch) # {}
  /\ BigLeq(XSumOver(vals, batch, XRefMembers(vals, batch)), max)
\* members and powers of the result agree with the reference
XResultPowersOK(vals, batch, post) ==
  /\ {post[i].a : i \in DOMAIN post} = XRefMembers(vals, batch)
  /\ \A i \in DOMAIN post : BigEq(post[i].p, XNewPower(vals, batch, post[i].a))
=============================================================================
