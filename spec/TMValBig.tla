------------------------------ MODULE TMValBig ------------------------------
(* Exact integer comparison and addition beyond TLC's 32-bit integers, for judging
   validator sets with voting powers near MaxTotalVotingPower = MaxInt64/8 (C08,
   "extreme powers").  An int64 is logged by the harness as
       [s |-> -1 | 0 | 1,  m |-> <<limb0, limb1, limb2>>]      (24-bit limbs, little endian)
   The operators below compare, add, subtract and divide (binary long division) exactly;
   every level-2 judgement on extreme runs is built from them: order, limits, window,
   atomicity, order-independence, acceptance, AND the exact priorities - the map-based
   reference of an update (XRefResult: newcomers enter at -(T + floor(T/8)), rescale,
   centre, canonical order) and the reference rotation (XRefIncrement) are evaluated on
   limbs and compared with the values observed on the real code.                      *)
EXTENDS Integers, Sequences, FiniteSets

BigBase == 16777216
BigZero == [s |-> 0, m |-> <<0, 0, 0>>]
Limb(m, i) == IF i <= Len(m) THEN m[i] ELSE 0
LMax(a, b) == IF a >= b THEN a ELSE b

\* compare magnitudes from limb i downwards: -1, 0, 1
RECURSIVE MagCmpFrom(_, _, _)
MagCmpFrom(a, b, i) ==
  IF i = 0 THEN 0
  ELSE IF Limb(a, i) < Limb(b, i) THEN -1
  ELSE IF Limb(a, i) > Limb(b, i) THEN 1
  ELSE MagCmpFrom(a, b, i - 1)
MagCmp(a, b) == MagCmpFrom(a, b, LMax(Len(a), Len(b)))
MagIsZero(a) == \A i \in DOMAIN a : a[i] = 0

RECURSIVE MagAddFrom(_, _, _, _, _)
MagAddFrom(a, b, i, n, carry) ==
  IF i > n THEN <<carry>>
  ELSE LET t == Limb(a, i) + Limb(b, i) + carry IN
       <<t % BigBase>> \o MagAddFrom(a, b, i + 1, n, t \div BigBase)
RECURSIVE MagTrim(_)
MagTrim(m) == IF Len(m) > 1 /\ m[Len(m)] = 0 THEN MagTrim(SubSeq(m, 1, Len(m) - 1)) ELSE m
MagAdd(a, b) == MagTrim(MagAddFrom(a, b, 1, LMax(Len(a), Len(b)), 0))

\* a - b for a >= b
RECURSIVE MagSubFrom(_, _, _, _, _)
MagSubFrom(a, b, i, n, borrow) ==
  IF i > n THEN << >>
  ELSE LET t == Limb(a, i) - Limb(b, i) - borrow IN
       IF t < 0 THEN <<t + BigBase>> \o MagSubFrom(a, b, i + 1, n, 1)
       ELSE <<t>> \o MagSubFrom(a, b, i + 1, n, 0)
MagSub(a, b) == MagTrim(MagSubFrom(a, b, 1, LMax(Len(a), Len(b)), 0))

\* a div b, a mod b for b > 0: binary long division (doubling the divisor), depth <= 64
RECURSIVE MagDivMod(_, _)
MagDivMod(a, b) ==
  IF MagCmp(a, b) < 0 THEN [q |-> <<0>>, r |-> MagTrim(a)]
  ELSE LET h  == MagDivMod(a, MagAdd(b, b))
           q2 == MagAdd(h.q, h.q)
       IN IF MagCmp(h.r, b) >= 0 THEN [q |-> MagAdd(q2, <<1>>), r |-> MagSub(h.r, b)]
          ELSE [q |-> q2, r |-> h.r]

Norm(s, m) == IF MagIsZero(m) THEN [s |-> 0, m |-> m] ELSE [s |-> s, m |-> m]
BigNeg(x) == [s |-> -x.s, m |-> x.m]
BigCmp(x, y) ==
  IF x.s # y.s THEN (IF x.s < y.s THEN -1 ELSE 1)
  ELSE IF x.s = 0 THEN 0
  ELSE IF x.s = 1 THEN MagCmp(x.m, y.m)
  ELSE MagCmp(y.m, x.m)
BigEq(x, y)   == BigCmp(x, y) = 0
BigLess(x, y) == BigCmp(x, y) < 0
BigLeq(x, y)  == BigCmp(x, y) <= 0
BigAdd(x, y) ==
  IF x.s = 0 THEN y
  ELSE IF y.s = 0 THEN x
  ELSE IF x.s = y.s THEN [s |-> x.s, m |-> MagAdd(x.m, y.m)]
  ELSE LET c == MagCmp(x.m, y.m) IN
       IF c = 0 THEN BigZero
       ELSE IF c > 0 THEN Norm(x.s, MagSub(x.m, y.m))
       ELSE Norm(y.s, MagSub(y.m, x.m))
BigSub(x, y) == BigAdd(x, BigNeg(y))
RECURSIVE BigSum(_)
BigSum(s) == IF s = << >> THEN BigZero ELSE BigAdd(s[1], BigSum(Tail(s)))
\* Go's int64 division: truncation toward zero (d > 0)
BigTruncDiv(x, d) == IF x.s = 0 THEN BigZero ELSE Norm(x.s, MagDivMod(x.m, d.m).q)
\* big.Int.Div / arithmetic shift: rounding toward -infinity (d > 0)
BigFloorDiv(x, d) ==
  IF x.s >= 0 THEN Norm(x.s, MagDivMod(x.m, d.m).q)
  ELSE LET h == MagDivMod(x.m, d.m) IN
       Norm(-1, IF MagIsZero(h.r) THEN h.q ELSE MagAdd(h.q, <<1>>))
BigOfSmall(n) == IF n = 0 THEN BigZero ELSE IF n > 0 THEN [s |-> 1, m |-> <<n, 0, 0>>] ELSE [s |-> -1, m |-> <<-n, 0, 0>>]  \* |n| < 2^24

\* ------------------------------------------------------------------ validator sets in limb form
\* vals : sequence of [a |-> address, p |-> Big, pr |-> Big]
XPowers(vals) == [i \in DOMAIN vals |-> vals[i].p]
XPrios(vals)  == [i \in DOMAIN vals |-> vals[i].pr]
XTotal(vals)  == BigSum(XPowers(vals))
XPowerLess(x, y) == BigLess(y.p, x.p) \/ (BigEq(x.p, y.p) /\ x.a < y.a)
XWellFormedWhy(vals, max) ==
  IF Len(vals) = 0 THEN "empty"
  ELSE IF \E i, j \in DOMAIN vals : i # j /\ vals[i].a = vals[j].a THEN "duplicate_address"
  ELSE IF \E i \in DOMAIN vals : vals[i].p.s <= 0 THEN "zero_power_member"
  ELSE IF \E i \in 1..(Len(vals) - 1) : ~XPowerLess(vals[i], vals[i + 1]) THEN "not_canonical_order"
  ELSE IF BigLess(max, XTotal(vals)) THEN "total_above_max"
  ELSE "ok"
XMaxPrio(vals) == vals[CHOOSE i \in DOMAIN vals : \A j \in DOMAIN vals : BigLeq(vals[j].pr, vals[i].pr)].pr
XMinPrio(vals) == vals[CHOOSE i \in DOMAIN vals : \A j \in DOMAIN vals : BigLeq(vals[i].pr, vals[j].pr)].pr
\* window <= 2*total
XWindowOK(vals) ==
  LET t == XTotal(vals) IN BigLeq(BigSub(XMaxPrio(vals), XMinPrio(vals)), BigAdd(t, t))
\* 0 <= sum < n
XCentred(vals) ==
  LET s == BigSum(XPrios(vals)) IN s.s >= 0 /\ BigLess(s, BigOfSmall(Len(vals)))
XNoClip(vals, imax, imin) == \A i \in DOMAIN vals : ~BigEq(vals[i].pr, imax) /\ ~BigEq(vals[i].pr, imin)

\* reference acceptance of a batch (cf. TMValSet!RefAccepts), powers only
XHas(vals, a) == \E i \in DOMAIN vals : vals[i].a = a
XGet(vals, a) == vals[CHOOSE i \in DOMAIN vals : vals[i].a = a]
XRefMembers(vals, batch) ==
  LET removed == {batch[i].a : i \in {j \in DOMAIN batch : batch[j].p.s = 0}}
      added   == {batch[i].a : i \in {j \in DOMAIN batch : batch[j].p.s > 0 /\ ~XHas(vals, batch[j].a)}}
  IN ({vals[i].a : i \in DOMAIN vals} \ removed) \cup added
XNewPower(vals, batch, a) ==
  IF \E i \in DOMAIN batch : batch[i].a = a /\ batch[i].p.s > 0
  THEN batch[CHOOSE i \in DOMAIN batch : batch[i].a = a].p
  ELSE XGet(vals, a).p
RECURSIVE XSumOver(_, _, _)
XSumOver(vals, batch, S) ==
  IF S = {} THEN BigZero
  ELSE LET x == CHOOSE y \in S : TRUE IN BigAdd(XNewPower(vals, batch, x), XSumOver(vals, batch, S \ {x}))
XRefAccepts(vals, batch, max) ==
  /\ \A i, j \in DOMAIN batch : i # j => batch[i].a # batch[j].a
  /\ \A i \in DOMAIN batch : batch[i].p.s >= 0 /\ BigLeq(batch[i].p, max)
  /\ \A i \in DOMAIN batch : batch[i].p.s = 0 => XHas(vals, batch[i].a)
  /\ XRefMembers(vals, batch) # {}
  /\ BigLeq(XSumOver(vals, batch, XRefMembers(vals, batch)), max)
\* members and powers of the result agree with the reference
XResultPowersOK(vals, batch, post) ==
  /\ {post[i].a : i \in DOMAIN post} = XRefMembers(vals, batch)
  /\ \A i \in DOMAIN post : BigEq(post[i].p, XNewPower(vals, batch, post[i].a))

\* ------------------------------------------------------------------ exact reference on limbs
XSane(vals) == /\ \A i, j \in DOMAIN vals : i # j => vals[i].a # vals[j].a
               /\ \A i \in DOMAIN vals : vals[i].p.s > 0
XSameVals(x, y) ==
  /\ Len(x) = Len(y)
  /\ \A i \in DOMAIN x : x[i].a = y[i].a /\ BigEq(x[i].p, y[i].p) /\ BigEq(x[i].pr, y[i].pr)
XOne == BigOfSmall(1)
\* initial priority of a validator that joins: -(T + (T >> 3)), T = total after the batch's
\* updates and before its removals (computeNewPriorities)
XNewcomerPriority(tvp) == BigNeg(BigAdd(tvp, BigFloorDiv(tvp, BigOfSmall(8))))
\* rescale of a FUNCTION prio : S -> Big (total = total power): the new priority of a
XRescaled(prio, total, a) ==
  LET S  == DOMAIN prio
      hi == prio[CHOOSE x \in S : \A y \in S : BigLeq(prio[y], prio[x])]
      lo == prio[CHOOSE x \in S : \A y \in S : BigLeq(prio[x], prio[y])]
      window == BigAdd(total, total)
      diff == BigSub(hi, lo)
      ratio == BigTruncDiv(BigSub(BigAdd(diff, window), XOne), window)
  IN IF BigLess(window, diff) THEN BigTruncDiv(prio[a], ratio) ELSE prio[a]
RECURSIVE XSumFn(_, _)
XSumFn(f, R) == IF R = {} THEN BigZero ELSE LET x == CHOOSE y \in R : TRUE IN BigAdd(f[x], XSumFn(f, R \ {x}))
\* rescale, then centre (subtract the floor of the average)
XRescaleCentre(prio, total) ==
  LET S   == DOMAIN prio
      sc  == [a \in S |-> XRescaled(prio, total, a)]
      avg == BigFloorDiv(XSumFn(sc, S), BigOfSmall(Cardinality(S)))
  IN [a \in S |-> BigSub(sc[a], avg)]

\* the result of an accepted batch (cf. TMValSet!RefResult)
XRefResult(vals, batch) ==
  LET members == {vals[i].a : i \in DOMAIN vals}
      result  == XRefMembers(vals, batch)
      tvp     == XSumOver(vals, batch, members \cup result)
      total   == XSumOver(vals, batch, result)
      pen     == XNewcomerPriority(tvp)
      prio2   == XRescaleCentre([a \in result |-> IF a \in members THEN XGet(vals, a).pr ELSE pen], total)
      pw      == [a \in result |-> XNewPower(vals, batch, a)]
      before(a, b) == BigLess(pw[b], pw[a]) \/ (BigEq(pw[a], pw[b]) /\ a < b)
      pos(a)  == 1 + Cardinality({b \in result : before(b, a)})
  IN [k \in 1..Cardinality(result) |->
        LET a == CHOOSE x \in result : pos(x) = k IN [a |-> a, p |-> pw[a], pr |-> prio2[a]]]

\* reference rotation: normalise once, k rounds (cf. TMValSet!RefIncrement)
XNormalise(vals) ==
  LET pr2 == XRescaleCentre([i \in DOMAIN vals |-> vals[i].pr], XTotal(vals))
  IN [i \in DOMAIN vals |-> [vals[i] EXCEPT !.pr = pr2[i]]]
XRound(vals) ==
  LET T == XTotal(vals)
      q == [i \in DOMAIN vals |-> BigAdd(vals[i].pr, vals[i].p)]
      win == CHOOSE i \in DOMAIN vals : \A j \in DOMAIN vals :
                j = i \/ BigLess(q[j], q[i]) \/ (BigEq(q[i], q[j]) /\ vals[i].a < vals[j].a)
  IN [vals |-> [i \in DOMAIN vals |-> [vals[i] EXCEPT !.pr = IF i = win THEN BigSub(q[i], T) ELSE q[i]]],
      prop |-> vals[win].a]
RECURSIVE XRounds(_, _, _)
XRounds(vals, prop, k) ==
  IF k = 0 THEN [vals |-> vals, prop |-> prop]
  ELSE LET r == XRound(vals) IN XRounds(r.vals, r.prop, k - 1)
XRefIncrement(vals, k) == XRounds(XNormalise(vals), 0, k)
=============================================================================
