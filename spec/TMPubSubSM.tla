----------------------------- MODULE TMPubSubSM -----------------------------
(* The pub-sub server as a state machine over the step operators of TMPubSub:
   any interleaving of API calls (any client, query, capacity, event), loop steps (one
   command / one query visit / one send at a time, queries and clients IN ANY ORDER, as Go
   map iteration does) and client reads.  `act` names the step (read by the replay
   driver); `ncalls` bounds the history.                                              *)
EXTENDS TMPubSub

CONSTANTS Caps,        \* capacities a subscriber may ask for (0 = SubscribeUnbuffered)
          EventIds,    \* events that may be published
          MaxCalls     \* bound on API calls per behaviour

VARIABLES ps, act, ncalls, stopreq
vars == <<ps, act, ncalls, stopreq>>

NoCmd == Cmd("none", NoClient, 0, 0, 0, 0)

Init == ps = InitS /\ act = [name |-> "Init"] /\ ncalls = 0 /\ stopreq = FALSE

Api(r, a) == /\ ncalls < MaxCalls
             /\ ~stopreq
             /\ r.res # "WouldBlock"
             /\ ps' = r.S
             /\ act' = a @@ [res |-> r.res]
             /\ ncalls' = ncalls + 1
             /\ UNCHANGED stopreq

Subscribe(c, q, cap) == Api(ApiSubscribe(ps, c, q, cap), [name |-> "Subscribe", c |-> c, q |-> q, cap |-> cap])
Unsubscribe(c, q)    == Api(ApiUnsubscribe(ps, c, q), [name |-> "Unsubscribe", c |-> c, q |-> q])
UnsubscribeAll(c)    == Api(ApiUnsubscribeAll(ps, c), [name |-> "UnsubscribeAll", c |-> c])
Publish(e)           == Api(ApiPublish(ps, e), [name |-> "Publish", e |-> e])

\* Server.Stop: the last API call of a behaviour (calls racing with shutdown are not modelled)
Stop == /\ ~stopreq
        /\ LET r == ApiStop(ps) IN r.res # "WouldBlock" /\ ps' = r.S
        /\ act' = [name |-> "Stop"]
        /\ stopreq' = TRUE
        /\ UNCHANGED ncalls

Take == /\ ~ps.loop.busy /\ ps.cmds # << >> /\ ~ps.stopped
        /\ ps' = LoopTake(ps)
        /\ act' = [name |-> "LoopTake", cmd |-> Head(ps.cmds)]
        /\ UNCHANGED <<ncalls, stopreq>>

Visit(q) == /\ ps.loop.busy /\ ps.loop.q = 0 /\ q \in ps.loop.qs
            /\ ps' = LoopVisit(ps, q)
            /\ act' = [name |-> "LoopVisit", q |-> q]
            /\ UNCHANGED <<ncalls, stopreq>>

Send(c) == /\ ps.loop.busy /\ ps.loop.q # 0 /\ c \in ps.loop.cs
           /\ IF LoopSendEnabled(ps, c)
              THEN ps' = LoopSend(ps, c) /\ act' = [name |-> "LoopSend", c |-> c]
              ELSE ~ps.loop.blocked /\ ps' = LoopBlock(ps) /\ act' = [name |-> "LoopBlock", c |-> c]
           /\ UNCHANGED <<ncalls, stopreq>>

Read(i) == /\ i \in DOMAIN ps.subs /\ ps.subs[i].out # << >>
           /\ ps' = Consume(ps, i)
           /\ act' = [name |-> "Consume", sid |-> i]
           /\ UNCHANGED <<ncalls, stopreq>>

Next == \/ \E c \in Clients, q \in Queries, cap \in Caps : Subscribe(c, q, cap)
        \/ \E c \in Clients, q \in Queries : Unsubscribe(c, q)
        \/ \E c \in Clients : UnsubscribeAll(c)
        \/ \E e \in EventIds : Publish(e)
        \/ Stop
        \/ Take
        \/ \E q \in Queries : Visit(q)
        \/ \E c \in Clients : Send(c)
        \/ \E i \in DOMAIN ps.subs : Read(i)

Spec == Init /\ [][Next]_vars

ExactDelivery           == ExactDeliveryS(ps)
ExplicitCancel          == ExplicitCancelS(ps)
RefCount                == RefCountS(ps)
NeverBlockedOnBuffered  == NeverBlockedOnBufferedS(ps)
Isolation == [][IsolationStep(ps, ps', IF act'.name = "LoopTake" THEN act'.cmd ELSE NoCmd)]_vars
\* the API registry and the loop's tables agree once every command has been processed,
\* except for subscriptions the loop ended itself (ErrOutOfCapacity), which stay registered
RegistryAgrees ==
  (ps.cmds = << >> /\ ~ps.loop.busy /\ ~ps.stopped) =>
     \A c \in Clients, q \in Queries :
        /\ ps.srv[<<q, c>>] # 0 => q \in ps.reg[c]
        /\ (q \in ps.reg[c] /\ ps.srv[<<q, c>>] = 0) =>
              \E i \in DOMAIN ps.subs : ps.subs[i].c = c /\ ps.subs[i].q = q /\ ps.subs[i].err = "OutOfCapacity"

PSView == <<ps, ncalls, stopreq>>
=============================================================================
