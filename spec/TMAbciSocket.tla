---------------------------- MODULE TMAbciSocket ----------------------------
(* The ABCI socket client of abci/client/socket_client.go (+ ReqRes of client.go) between
   caller goroutines and one application connection, with the socket server of
   abci/server/socket_server.go ("honest") or a scripted peer that may lie ("raw").

   One connection = one socketClient:
     callers  --queueRequest-->  reqQueue (chan, cap reqQueueSize)
     sendRequestsRoutine:  <-reqQueue ; willSendReq (reqSent.PushBack under cli.mtx) ;
                           WriteMessage into a bufio.Writer ; Flush() on a Flush request
     flush timer (ThrottleTimer; the code passes flushThrottleMS = 20 as a time.Duration, i.e.
                           20ns, so it fires "at once"): Set() by every non-flush request,
                           Unset() by a flush request; when it fires the send routine queues
                           a Flush itself (select-default: dropped when the queue is full)
     recvResponseRoutine:  ReadMessage ; Exception -> stopForError ; else didRecvResponse:
                           under cli.mtx  head of reqSent must match the response TYPE
                           (the wire carries no ids) ; Response set ; Done() ; removed ;
                           global callback resCb ; ReqRes.InvokeCallback
     *Sync call          = queueRequest(x) ; FlushSync   (FlushSync = queue Flush ; Error()? ;
                           Wait on the FLUSH's ReqRes ; Error())
     stopForError(e)     : if !IsRunning return ; err = e (first wins) ; Stop() -> OnStop:
                           conn.Close ; flushQueue (Done() of everything in reqSent and in
                           reqQueue) ; flushTimer.Stop ; close(quit)

   Grain: one action per critical section / blocking point.  didRecvResponse is THREE steps
   (match+Done | global callback | request callback) with cli.mtx held throughout, because
   Done() releases waiters before the callbacks have run.  The gap between "<-reqQueue" and
   willSendReq is a state of the send routine (sendpc.pc = "have").

   As-is behaviour of the code that breaks a property below is behind a switch (TRUE = the
   code as it is at the pinned commit, FALSE = as repaired by
   proposed-fixes/ABCI-socket-client-stop-races.diff).  All three were found by TLC on this
   spec and then observed on the real code (panic; caller blocked for ever):
     Weak_FlushQueueKeepsSent   flushQueue leaves the released ReqRes in reqSent: a response
                                still buffered in the bufio.Reader is matched against it and
                                Done() is called a second time -> panic (negative WaitGroup)
     Weak_InHandLost            a request taken from reqQueue before flushQueue ran and pushed
                                to reqSent after it is never released
     Weak_DeadQueueBlocks       requests queued after the stop are never released and the
                                (QCap+1)-th call blocks for ever
                                repaired: queueRequest selects on Quit() and, when it finds the
                                client stopped after a successful send, drains reqQueue itself
                                (Drain); willSendReq releases instead of tracking when the client
                                is stopped; flushQueue empties reqSent
   Deliberate deviations of the model (named):
     Dev_SetErrAtomic   stopForError's IsRunning check, "err = e" and the CAS in Stop() are one
                        step (the code can interleave two failing routines between them; only
                        WHICH error is kept differs)
     Dev_TimerAtomic    queueRequest's channel send and flushTimer.Set/Unset are one step
     Dev_Bufio          client write buffer: everything written since the last Flush request
                        stays in wbuf; Spill moves it to the wire early (bufio overflow, 4096 B)
     Dev_ServerAtomic   honest server: handleRequests/handleResponses/the 1000-slot channel are
                        one step per request; its bufio.Writer is sbuf (flushed by a Flush
                        response only)
     Dev_UserStopNilErr Stop() by the owner releases waiters and FlushSync returns nil although
                        nothing was flushed (the code documents Error() as "stopped abruptly"
                        only): FlushMeaning is claimed for calls that were not cut by Stop().
*)
EXTENDS Integers, Sequences, FiniteSets, TLC

CONSTANTS
  Threads,     \* caller goroutines
  MaxCalls,    \* calls started in one behaviour
  MaxTimer,    \* flush-timer firings
  QCap,        \* capacity of reqQueue (reqQueueSize = 256 in the code)
  CallKinds,   \* subset of {"AsyncA","AsyncB","SyncA","SyncB","FlushSync","FlushAsync"}
  Server,      \* "honest" (abci/server) | "raw" (scripted peer)
  Faults,      \* subset of {"wrongtype","extra","swap","exception","garbage","close","halfclose","midframe","panic"}
  MaxFaults,
  Chunked,     \* raw server may deliver a frame in two pieces
  UserStop,    \* the owner may call Stop()
  SetCb,       \* callers set request callbacks after the Async call returned (mempool pattern)
  Gates,       \* replay: a global callback may block until released (ReleaseGate)
  Prio,        \* replay: environment steps only when no internal step is enabled
  Spill,       \* bufio overflow
  Weak_FlushDoesNotWaitForCallbacks,  \* didRecvResponse hands the callbacks to a dispatcher goroutine instead of running them
  Weak_ResponseMatchedByTypeOnly,     \* didRecvResponse takes the first reqSent entry of the response's type
  Weak_NoTypeCheck,                   \* resMatchesReq always true
  Weak_CallbackSetAfterDoneLost,      \* SetCallback after InvokeCallback only stores the callback
  Weak_ErrorLeavesPendingBlocked,     \* OnStop without flushQueue
  Weak_SendBeforeTrack,               \* WriteMessage before willSendReq
  Weak_ExceptionIgnored,              \* an exception response is dropped instead of stopping the client
  Weak_FlushQueueKeepsSent, Weak_InHandLost, Weak_DeadQueueBlocks   \* as-is switches (see above)

VARIABLES
  reqs,      \* ReqRes objects in creation order: [typ, by, call]
  queue,     \* reqQueue
  sent,      \* reqSent
  sendpc,    \* send routine: [pc, r, e]
  wbuf,      \* client bufio.Writer
  c2s,       \* wire client -> server
  pend,      \* raw server: requests read, not answered
  sbuf,      \* honest server bufio.Writer
  app,       \* requests in the order the application (server) saw them
  s2c,       \* wire server -> client (kernel buffers): items [k, typ, for, part]
  rbuf,      \* the recv routine's bufio.Reader: items read from the socket, not yet decoded
  srvClosed,
  recvpc,    \* recv routine: [pc, r, x, e]
  mtx,       \* cli.mtx: "free" | "recv" (didRecvResponse in progress)
  done,      \* number of Done() calls per ReqRes
  resp,      \* Response per ReqRes
  cbset,     \* ReqRes with cb # nil
  cbinv,     \* ReqRes with callbackInvoked
  cbret,     \* ReqRes whose SetCallback call has returned
  err, stopped, stoppc, stopby, quit, connClosed,
  timerSet, ntimer, nfault, ncalls,
  th,        \* caller goroutines: [pc, kind, r, f, call]
  gated,     \* ReqRes whose global callback blocks until released
  cbq,       \* (Weak_FlushDoesNotWaitForCallbacks only) callbacks handed to a dispatcher goroutine
  ustopped,  \* the owner has called Stop()
  panicked,  \* Done() was called twice on one ReqRes: "sync: negative WaitGroup counter", the process dies
  h,         \* ghost history
  act
vars == <<reqs, queue, sent, sendpc, wbuf, c2s, pend, sbuf, app, s2c, rbuf, srvClosed, recvpc, mtx, done, resp,
          cbset, cbinv, cbret, err, stopped, stoppc, stopby, quit, connClosed, timerSet, ntimer, nfault,
          ncalls, th, gated, cbq, ustopped, panicked, h, act>>

NoResp == [k |-> "none", typ |-> "-", for |-> 0, part |-> FALSE]
Res(typ, r) == [k |-> "res", typ |-> typ, for |-> r, part |-> FALSE]
Item(k) == [k |-> k, typ |-> "-", for |-> 0, part |-> FALSE]
OtherTyp(t) == IF t = "A" THEN "B" ELSE "A"
TypOf(kind) == CASE kind \in {"AsyncA", "SyncA"} -> "A" [] kind \in {"AsyncB", "SyncB"} -> "B" [] OTHER -> "F"
IsSync(kind) == kind \in {"SyncA", "SyncB", "FlushSync"}
AbIn(s, x) == \E i \in DOMAIN s : s[i] = x
AbPos(s, x) == CHOOSE i \in DOMAIN s : s[i] = x
AbPrefix(s, t) == Len(s) <= Len(t) /\ \A i \in DOMAIN s : s[i] = t[i]
AbRemove(s, i) == [j \in 1..(Len(s) - 1) |-> IF j < i THEN s[j] ELSE s[j + 1]]
AbBump(d, S) == [i \in DOMAIN d |-> IF i \in S THEN d[i] + 1 ELSE d[i]]
AbRange(s) == {s[i] : i \in DOMAIN s}
A0(n) == [name |-> n]

Idle == [pc |-> "idle", kind |-> "-", r |-> 0, f |-> 0, call |-> 0, gate |-> FALSE]

Init ==
  /\ reqs = << >> /\ queue = << >> /\ sent = << >> /\ wbuf = << >> /\ c2s = << >>
  /\ sendpc = [pc |-> "sel", r |-> 0, e |-> "-"]
  /\ pend = << >> /\ sbuf = << >> /\ app = << >> /\ s2c = << >> /\ rbuf = << >> /\ srvClosed = FALSE
  /\ recvpc = [pc |-> "read", r |-> 0, x |-> NoResp, e |-> "-"]
  /\ mtx = "free" /\ done = << >> /\ resp = << >>
  /\ cbset = {} /\ cbinv = {} /\ cbret = {}
  /\ err = "nil" /\ stopped = FALSE /\ stoppc = "none" /\ stopby = "-" /\ quit = FALSE /\ connClosed = FALSE
  /\ timerSet = FALSE /\ ntimer = 0 /\ nfault = 0 /\ ncalls = 0
  /\ th = [t \in Threads |-> Idle]
  /\ gated = {} /\ cbq = << >> /\ ustopped = FALSE /\ panicked = FALSE
  /\ h = [issued |-> << >>, matched |-> << >>, cblog |-> << >>, rets |-> << >>, faultHit |-> FALSE, lied |-> FALSE,
          flushrbuf |-> 0, ustopgate |-> FALSE]
  /\ act = A0("Init")

HasCb(k, r) == \E i \in DOMAIN h.cblog : h.cblog[i].k = k /\ h.cblog[i].r = r
NCb(k, r) == Cardinality({i \in DOMAIN h.cblog : h.cblog[i].k = k /\ h.cblog[i].r = r})

\* ------------------------------------------------------------------ stopForError / Stop
\* UNCHANGED helper groups
ucClient == <<reqs, wbuf, timerSet, ntimer>>
ucSrv == <<pend, sbuf, app, srvClosed>>
ucCb == <<cbset, cbinv, cbret, gated>>
ucStop == <<err, stopped, stoppc, stopby, quit, connClosed>>
ucCount == <<nfault, ncalls>>

\* a routine X ("send"/"recv") that reached stopForError(e)       (Dev_SetErrAtomic)
StopBegin(X) ==
  LET pcv == IF X = "send" THEN sendpc ELSE recvpc IN
  /\ pcv.pc = "stop" /\ mtx = "free"
  /\ IF stopped
       THEN /\ UNCHANGED ucStop
            /\ IF X = "send" THEN sendpc' = [sendpc EXCEPT !.pc = "exit"] /\ UNCHANGED recvpc
                             ELSE recvpc' = [recvpc EXCEPT !.pc = "exit"] /\ UNCHANGED sendpc
       ELSE /\ err' = IF err = "nil" THEN pcv.e ELSE err
            /\ stopped' = TRUE /\ stoppc' = "close" /\ stopby' = X
            /\ UNCHANGED <<quit, connClosed>>
            /\ IF X = "send" THEN sendpc' = [sendpc EXCEPT !.pc = "stopping"] /\ UNCHANGED recvpc
                             ELSE recvpc' = [recvpc EXCEPT !.pc = "stopping"] /\ UNCHANGED sendpc
  /\ act' = [name |-> "StopBegin", by |-> X]
  /\ UNCHANGED <<ucClient, queue, sent, c2s, ucSrv, s2c, mtx, done, resp, ucCb, ucCount, th, h>>

\* Stop() by the owner (no error is recorded)
UStop ==
  /\ UserStop /\ ~ustopped
  /\ ustopped' = TRUE /\ UNCHANGED <<rbuf, panicked, cbq>>
  /\ h' = [h EXCEPT !.ustopgate = (recvpc.pc = "gcb" /\ recvpc.r \in gated)]
  /\ IF stopped THEN UNCHANGED <<stopped, stoppc, stopby>>
                ELSE stopped' = TRUE /\ stoppc' = "close" /\ stopby' = "user"
  /\ act' = A0("UStop")
  /\ UNCHANGED <<ucClient, queue, sent, sendpc, c2s, ucSrv, s2c, recvpc, mtx, done, resp, ucCb, err, quit,
                 connClosed, ucCount, th>>

\* OnStop: conn.Close().  What the bufio.Reader already holds stays readable, what is still in
\* the kernel is gone: the next read() fails.  The server sees EOF.
StopClose ==
  /\ stoppc = "close"
  /\ s2c' = <<Item("eof")>>
  /\ connClosed' = TRUE /\ srvClosed' = TRUE
  /\ c2s' = IF Server = "raw" THEN c2s ELSE << >>     \* frames the scripted peer has already read stay with it
  /\ stoppc' = "flush"
  /\ act' = A0("StopClose")
  /\ UNCHANGED <<ucClient, queue, sent, sendpc, pend, sbuf, app, recvpc, mtx, done, resp, ucCb, err, stopped,
                 stopby, quit, ucCount, th, h>>

\* OnStop: flushQueue() under cli.mtx
StopFlush ==
  /\ stoppc = "flush" /\ mtx = "free"
  /\ LET rel == IF Weak_ErrorLeavesPendingBlocked THEN {} ELSE AbRange(sent) \cup AbRange(queue)
         d2  == AbBump(done, rel)
     IN /\ done' = d2
        /\ panicked' = (\E i \in DOMAIN d2 : d2[i] > 1) /\ UNCHANGED <<rbuf, ustopped, cbq>>
        /\ h' = [h EXCEPT !.flushrbuf = Len(rbuf)]
  /\ queue' = IF Weak_ErrorLeavesPendingBlocked THEN queue ELSE << >>
  /\ sent' = IF Weak_FlushQueueKeepsSent \/ Weak_ErrorLeavesPendingBlocked THEN sent ELSE << >>
  /\ stoppc' = "quit"
  /\ act' = A0("StopFlush")
  /\ UNCHANGED <<ucClient, sendpc, c2s, ucSrv, s2c, recvpc, mtx, resp, ucCb, err, stopped, stopby, quit,
                 connClosed, ucCount, th>>

\* OnStop: flushTimer.Stop(); BaseService: close(quit)
StopQuit ==
  /\ stoppc = "quit"
  /\ quit' = TRUE /\ stoppc' = "done" /\ timerSet' = FALSE
  /\ IF stopby = "send" THEN sendpc' = [sendpc EXCEPT !.pc = "exit"] /\ UNCHANGED recvpc
     ELSE IF stopby = "recv" THEN recvpc' = [recvpc EXCEPT !.pc = "exit"] /\ UNCHANGED sendpc
     ELSE UNCHANGED <<sendpc, recvpc>>
  /\ act' = A0("StopQuit")
  /\ UNCHANGED <<reqs, wbuf, ntimer, queue, sent, c2s, ucSrv, s2c, mtx, done, resp, ucCb, err, stopped, stopby,
                 connClosed, ucCount, th, h>>

\* ------------------------------------------------------------------ callers
NewReq(typ, by, call, async) == [typ |-> typ, by |-> by, call |-> call, async |-> async]

StartCall(t, kind, gate) ==
  /\ th[t].pc = "idle" /\ ncalls < MaxCalls /\ kind \in CallKinds
  /\ gate => Gates /\ TypOf(kind) # "F"
  /\ ncalls' = ncalls + 1
  /\ th' = [th EXCEPT ![t] = [pc |-> IF kind = "FlushSync" THEN "enqf" ELSE "enq", kind |-> kind, r |-> 0, f |-> 0,
                               call |-> ncalls + 1, gate |-> gate]]
  /\ act' = [name |-> "StartCall", t |-> t, kind |-> kind, call |-> ncalls + 1, gate |-> gate]
  /\ UNCHANGED <<ucClient, queue, sent, sendpc, c2s, ucSrv, s2c, recvpc, mtx, done, resp, ucCb, ucStop, nfault, h>>

\* queueRequest: cli.reqQueue <- reqres ; flushTimer.Set()/Unset()       (Dev_TimerAtomic)
\* as-is: the send blocks while the queue is full, whoever is (not) reading it.
\* repaired: select { case reqQueue <- r: ; case <-Quit(): r.Done() } and, after a successful
\* send on a stopped client, the caller drains the queue itself (pc "drain").
CanEnq == Len(queue) < QCap \/ ((~Weak_DeadQueueBlocks) /\ quit)
EnqEffect(typ, by, call, async) ==
  LET n == Len(reqs) + 1
      dropped == Len(queue) >= QCap      \* only reachable repaired /\ quit
  IN
  /\ reqs' = Append(reqs, NewReq(typ, by, call, async))
  /\ resp' = Append(resp, NoResp)
  /\ h' = [h EXCEPT !.issued = IF dropped THEN @ ELSE Append(@, n)]
  /\ timerSet' = IF quit THEN FALSE ELSE (typ # "F")
  /\ queue' = IF dropped THEN queue ELSE Append(queue, n)
  /\ done' = Append(done, IF dropped THEN 1 ELSE 0)
NeedDrain == (~Weak_DeadQueueBlocks) /\ stopped
AfterEnq(t) == IF th[t].f # 0 THEN "chk" ELSE IF IsSync(th[t].kind) THEN "enqf" ELSE "idle"

Ret(t, e, got, ok) ==
  [t |-> t, call |-> th[t].call, kind |-> th[t].kind, r |-> th[t].r, f |-> th[t].f, err |-> e, got |-> got,
   ok |-> ok, ustopped |-> ustopped]

Enq(t) ==
  LET n == Len(reqs) + 1
      kind == th[t].kind IN
  /\ th[t].pc = "enq" /\ CanEnq
  /\ EnqEffect(TypOf(kind), t, th[t].call, ~IsSync(kind))
  /\ gated' = IF th[t].gate THEN gated \cup {n} ELSE gated
  /\ th' = IF NeedDrain THEN [th EXCEPT ![t].pc = "drain", ![t].r = n]
           ELSE IF IsSync(kind) THEN [th EXCEPT ![t].pc = "enqf", ![t].r = n]
           ELSE [th EXCEPT ![t] = Idle]    \* the Async call returns the ReqRes
  /\ act' = [name |-> "Enq", t |-> t, r |-> n]
  /\ UNCHANGED <<wbuf, ntimer, sent, sendpc, c2s, ucSrv, s2c, recvpc, mtx, cbset, cbinv, cbret, ucStop, ucCount>>

\* FlushSync: queueRequest(Flush)
EnqF(t) ==
  LET n == Len(reqs) + 1 IN
  /\ th[t].pc = "enqf" /\ CanEnq
  /\ EnqEffect("F", t, th[t].call, FALSE)
  /\ th' = [th EXCEPT ![t].pc = IF NeedDrain THEN "drain" ELSE "chk", ![t].f = n]
  /\ act' = [name |-> "EnqF", t |-> t, r |-> n]
  /\ UNCHANGED <<wbuf, ntimer, sent, sendpc, c2s, ucSrv, s2c, recvpc, mtx, ucCb, ucStop, ucCount>>

\* repaired queueRequest on a stopped client: the caller drains reqQueue itself (channel
\* receives only - no mutex, so it cannot deadlock with a callback that makes a call)
Drain(t) ==
  /\ th[t].pc = "drain"
  /\ done' = AbBump(done, AbRange(queue))
  /\ panicked' = (\E i \in AbRange(queue) : done[i] >= 1) /\ UNCHANGED <<h, rbuf, ustopped, cbq>>
  /\ queue' = << >>
  /\ th' = IF AfterEnq(t) = "idle" THEN [th EXCEPT ![t] = Idle] ELSE [th EXCEPT ![t].pc = AfterEnq(t)]
  /\ act' = [name |-> "Drain", t |-> t]
  /\ UNCHANGED <<ucClient, sent, sendpc, c2s, ucSrv, s2c, recvpc, mtx, resp, ucCb, ucStop, ucCount>>

\* everything issued before request f has been handled and its callbacks have run
Before(f) == {h.issued[i] : i \in 1..(IF AbIn(h.issued, f) THEN AbPos(h.issued, f) - 1 ELSE 0)}
FlushOK(f) ==
  \A q \in Before(f) :
     /\ resp[q] # NoResp
     /\ HasCb("g", q)
     /\ (q \in cbret => HasCb("r", q))
     /\ (~h.lied => AbIn(app, q))

\* FlushSync: if err := cli.Error(); err != nil { return err }
Chk(t) ==
  /\ th[t].pc = "chk" /\ mtx = "free"          \* cli.Error() takes cli.mtx
  /\ IF err # "nil"
       THEN /\ h' = [h EXCEPT !.rets = Append(@, Ret(t, "err", 0, TRUE))]
            /\ th' = [th EXCEPT ![t] = Idle]
       ELSE /\ th' = [th EXCEPT ![t].pc = "wait"] /\ UNCHANGED h
  /\ act' = [name |-> "Chk", t |-> t]
  /\ UNCHANGED <<ucClient, queue, sent, sendpc, c2s, ucSrv, s2c, recvpc, mtx, done, resp, ucCb, ucStop, ucCount>>

\* reqRes.Wait() returned; return cli.Error() / (reqres.Response, cli.Error())
Fin(t) ==
  LET w == th[t].f
      e == IF err = "nil" THEN "nil" ELSE "err"
      got == IF th[t].r # 0 THEN resp[th[t].r].for ELSE 0 IN
  /\ th[t].pc = "wait" /\ done[w] >= 1 /\ mtx = "free"   \* cli.Error() takes cli.mtx
  /\ h' = [h EXCEPT !.rets = Append(@, Ret(t, e, got, FlushOK(th[t].f)))]
  /\ th' = [th EXCEPT ![t] = Idle]
  /\ act' = [name |-> "Fin", t |-> t]
  /\ UNCHANGED <<ucClient, queue, sent, sendpc, c2s, ucSrv, s2c, recvpc, mtx, done, resp, ucCb, ucStop, ucCount>>

\* ReqRes.SetCallback by the goroutine that made the Async call (mempool: CheckTxAsync; SetCallback)
SetCallback(t, r) ==
  /\ SetCb /\ th[t].pc = "idle" /\ r \in DOMAIN reqs /\ reqs[r].by = t /\ reqs[r].typ # "F"
  /\ r \notin cbret /\ reqs[r].async                                   \* a handle of an Async call
  /\ ~(recvpc.pc = "rcb" /\ recvpc.r = r)                               \* r.mtx is held by InvokeCallback
  /\ cbret' = cbret \cup {r}
  /\ IF r \in cbinv
       THEN /\ cbset' = cbset
            /\ h' = IF Weak_CallbackSetAfterDoneLost THEN h
                    ELSE [h EXCEPT !.cblog = Append(@, [k |-> "r", r |-> r, for |-> resp[r].for, by |-> "caller"])]
       ELSE cbset' = cbset \cup {r} /\ UNCHANGED h
  /\ act' = [name |-> "SetCallback", t |-> t, r |-> r]
  /\ UNCHANGED <<ucClient, queue, sent, sendpc, c2s, ucSrv, s2c, recvpc, mtx, done, resp, cbinv, gated, ucStop,
                 ucCount, th>>

\* ------------------------------------------------------------------ send routine
SendDequeue ==
  /\ sendpc.pc = "sel" /\ queue # << >>
  /\ sendpc' = [sendpc EXCEPT !.pc = IF Weak_SendBeforeTrack THEN "write" ELSE "have", !.r = Head(queue)]
  /\ queue' = Tail(queue)
  /\ act' = A0("SendDequeue")
  /\ UNCHANGED <<ucClient, sent, c2s, ucSrv, s2c, recvpc, mtx, done, resp, ucCb, ucStop, ucCount, th, h>>

\* willSendReq
SendTrack ==
  /\ sendpc.pc = "have" /\ mtx = "free"
  /\ IF stopped /\ ~Weak_InHandLost
       THEN /\ sent' = sent /\ done' = AbBump(done, {sendpc.r})      \* repaired: released, not tracked
            /\ sendpc' = [sendpc EXCEPT !.pc = "sel", !.r = 0]
       ELSE /\ sent' = Append(sent, sendpc.r) /\ done' = done
            /\ sendpc' = [sendpc EXCEPT !.pc = IF Weak_SendBeforeTrack THEN "sel" ELSE "write"]
  /\ act' = A0("SendTrack")
  /\ UNCHANGED <<ucClient, queue, c2s, ucSrv, s2c, recvpc, mtx, resp, ucCb, ucStop, ucCount, th, h>>

\* WriteMessage (+ w.Flush() for a Flush request)
SendWrite ==
  /\ sendpc.pc = "write"
  /\ LET r == sendpc.r
         nxt == IF Weak_SendBeforeTrack THEN "have" ELSE "sel" IN
     IF reqs[r].typ # "F"
       THEN wbuf' = Append(wbuf, r) /\ c2s' = c2s /\ sendpc' = [sendpc EXCEPT !.pc = nxt]
       ELSE \/ /\ ~connClosed /\ ~srvClosed
               /\ c2s' = c2s \o Append(wbuf, r) /\ wbuf' = << >> /\ sendpc' = [sendpc EXCEPT !.pc = nxt]
            \/ /\ connClosed \/ srvClosed                   \* write on a closed socket
               /\ wbuf' = << >> /\ c2s' = c2s
               /\ sendpc' = [sendpc EXCEPT !.pc = "stop", !.e = "flushbuf"]
            \/ /\ srvClosed /\ ~connClosed                  \* the peer is gone but the kernel still takes the bytes
               /\ wbuf' = << >> /\ c2s' = c2s /\ sendpc' = [sendpc EXCEPT !.pc = nxt]
  /\ act' = A0("SendWrite")
  /\ UNCHANGED <<reqs, timerSet, ntimer, queue, sent, ucSrv, s2c, recvpc, mtx, done, resp, ucCb, ucStop, ucCount, th, h>>

\* bufio.Writer overflow                                     (Dev_Bufio)
SendSpill ==
  /\ Spill /\ wbuf # << >> /\ ~connClosed /\ ~srvClosed
  /\ c2s' = c2s \o wbuf /\ wbuf' = << >>
  /\ act' = A0("SendSpill")
  /\ UNCHANGED <<reqs, timerSet, ntimer, queue, sent, sendpc, ucSrv, s2c, recvpc, mtx, done, resp, ucCb, ucStop,
                 ucCount, th, h>>

\* case <-cli.flushTimer.Ch: select { case cli.reqQueue <- Flush: default: }
TimerFire ==
  /\ sendpc.pc = "sel" /\ timerSet /\ ntimer < MaxTimer /\ ~quit
  /\ ntimer' = ntimer + 1 /\ timerSet' = FALSE
  /\ IF Len(queue) < QCap
       THEN LET n == Len(reqs) + 1 IN
            /\ reqs' = Append(reqs, NewReq("F", "timer", 0, FALSE)) /\ resp' = Append(resp, NoResp)
            /\ done' = Append(done, 0) /\ queue' = Append(queue, n)
            /\ h' = [h EXCEPT !.issued = Append(@, n)]
       ELSE UNCHANGED <<reqs, resp, done, queue, h>>
  /\ act' = A0("TimerFire")
  /\ UNCHANGED <<wbuf, sent, sendpc, c2s, ucSrv, s2c, recvpc, mtx, ucCb, ucStop, ucCount, th>>

SendQuit ==
  /\ sendpc.pc = "sel" /\ quit
  /\ sendpc' = [sendpc EXCEPT !.pc = "exit"]
  /\ act' = A0("SendQuit")
  /\ UNCHANGED <<ucClient, queue, sent, c2s, ucSrv, s2c, recvpc, mtx, done, resp, ucCb, ucStop, ucCount, th, h>>

\* ------------------------------------------------------------------ recv routine
\* types.ReadMessage on the bufio.Reader: decode the next frame from the buffer; when the buffer
\* is empty one read() takes everything complete that is on the socket
RecvRead ==
  /\ recvpc.pc = "read"
  /\ rbuf # << >> \/ (s2c # << >> /\ ~Head(s2c).part)
  /\ LET avail == IF s2c # << >> /\ s2c[Len(s2c)].part THEN SubSeq(s2c, 1, Len(s2c) - 1) ELSE s2c
         buf == IF rbuf # << >> THEN rbuf ELSE avail
         x == Head(buf) IN
     /\ rbuf' = Tail(buf)
     /\ s2c' = IF rbuf # << >> THEN s2c ELSE SubSeq(s2c, Len(avail) + 1, Len(s2c))
     /\ IF x.k \in {"eof", "bad"} THEN recvpc' = [recvpc EXCEPT !.pc = "stop", !.e = "read"] /\ h' = [h EXCEPT !.faultHit = TRUE]
        ELSE IF x.k = "exc" THEN
             /\ h' = [h EXCEPT !.faultHit = TRUE]
             /\ IF Weak_ExceptionIgnored THEN UNCHANGED recvpc
                ELSE recvpc' = [recvpc EXCEPT !.pc = "stop", !.e = "exception"]
        ELSE recvpc' = [recvpc EXCEPT !.pc = "did", !.x = x] /\ UNCHANGED h
  /\ act' = A0("RecvRead")
  /\ UNCHANGED <<ustopped, panicked, cbq>>
  /\ UNCHANGED <<ucClient, queue, sent, sendpc, c2s, ucSrv, mtx, done, resp, ucCb, ucStop, ucCount, th>>

MatchIdx(x) ==
  IF Weak_ResponseMatchedByTypeOnly
    THEN IF \E i \in DOMAIN sent : reqs[sent[i]].typ = x.typ
           THEN CHOOSE i \in DOMAIN sent : reqs[sent[i]].typ = x.typ /\ \A j \in 1..(i - 1) : reqs[sent[j]].typ # x.typ
           ELSE 1
    ELSE 1

\* didRecvResponse, first part: match, Response, Done(), remove      (cli.mtx taken)
RecvDid ==
  /\ recvpc.pc = "did" /\ mtx = "free"
  /\ LET x == recvpc.x IN
     IF sent = << >>
       THEN /\ recvpc' = [recvpc EXCEPT !.pc = "stop", !.e = "unsolicited"]
            /\ h' = [h EXCEPT !.faultHit = TRUE]
            /\ UNCHANGED <<sent, resp, done, mtx, panicked, cbq>>
       ELSE LET i == MatchIdx(x)
                r == sent[i] IN
            IF reqs[r].typ # x.typ /\ ~Weak_NoTypeCheck
              THEN /\ recvpc' = [recvpc EXCEPT !.pc = "stop", !.e = "wrongtype"]
                   /\ h' = [h EXCEPT !.faultHit = TRUE]
                   /\ UNCHANGED <<sent, resp, done, mtx, panicked, cbq>>
              ELSE /\ resp' = [resp EXCEPT ![r] = x]
                   /\ done' = AbBump(done, {r})
                   /\ sent' = AbRemove(sent, i)
                   /\ IF Weak_FlushDoesNotWaitForCallbacks
                        THEN mtx' = mtx /\ recvpc' = [recvpc EXCEPT !.pc = "read"] /\ cbq' = Append(cbq, [r |-> r, x |-> x])
                        ELSE mtx' = "recv" /\ recvpc' = [recvpc EXCEPT !.pc = "gcb", !.r = r] /\ cbq' = cbq
                   /\ h' = [h EXCEPT !.matched = Append(@, r), !.lied = @ \/ x.for # r]
                   /\ panicked' = (done[r] >= 1)
  /\ act' = A0("RecvDid")
  /\ UNCHANGED <<rbuf, ustopped>>
  /\ UNCHANGED <<ucClient, queue, sendpc, c2s, ucSrv, s2c, ucCb, ucStop, ucCount, th>>

\* the global callback cli.resCb(req, res) has run (it may block first: gate)
RecvGcb ==
  /\ recvpc.pc = "gcb" /\ recvpc.r \notin gated
  /\ h' = [h EXCEPT !.cblog = Append(@, [k |-> "g", r |-> recvpc.r, for |-> recvpc.x.for, by |-> "recv"])]
  /\ recvpc' = [recvpc EXCEPT !.pc = "rcb"]
  /\ act' = A0("RecvGcb")
  /\ UNCHANGED <<ucClient, queue, sent, sendpc, c2s, ucSrv, s2c, mtx, done, resp, ucCb, ucStop, ucCount, th>>

\* reqres.InvokeCallback(); cli.mtx released
RecvRcb ==
  /\ recvpc.pc = "rcb"
  /\ h' = IF recvpc.r \in cbset
            THEN [h EXCEPT !.cblog = Append(@, [k |-> "r", r |-> recvpc.r, for |-> recvpc.x.for, by |-> "recv"])]
            ELSE h
  /\ cbinv' = cbinv \cup {recvpc.r}
  /\ mtx' = "free"
  /\ recvpc' = [recvpc EXCEPT !.pc = "read", !.r = 0, !.x = NoResp]
  /\ act' = A0("RecvRcb")
  /\ UNCHANGED <<ucClient, queue, sent, sendpc, c2s, ucSrv, s2c, done, resp, cbset, cbret, gated, ucStop, ucCount, th>>

GatedNow == IF recvpc.pc = "gcb" /\ recvpc.r \in gated THEN recvpc.r
            ELSE IF cbq # << >> /\ Head(cbq).r \in gated THEN Head(cbq).r ELSE 0
ReleaseGate ==
  /\ GatedNow # 0
  /\ gated' = gated \ {GatedNow}
  /\ act' = [name |-> "ReleaseGate", r |-> GatedNow]
  /\ UNCHANGED <<ucClient, queue, sent, sendpc, c2s, ucSrv, s2c, recvpc, mtx, done, resp, cbset, cbinv, cbret,
                 ucStop, ucCount, th, h>>

\* Weak_FlushDoesNotWaitForCallbacks: a dispatcher goroutine runs the callbacks, in order, outside cli.mtx
CbDispatch ==
  /\ cbq # << >> /\ Head(cbq).r \notin gated
  /\ LET r == Head(cbq).r
         x == Head(cbq).x
         g1 == Append(h.cblog, [k |-> "g", r |-> r, for |-> x.for, by |-> "recv"]) IN
     h' = [h EXCEPT !.cblog = IF r \in cbset THEN Append(g1, [k |-> "r", r |-> r, for |-> x.for, by |-> "recv"]) ELSE g1]
  /\ cbinv' = cbinv \cup {Head(cbq).r}
  /\ cbq' = Tail(cbq)
  /\ act' = A0("CbDispatch")
  /\ UNCHANGED <<ucClient, queue, sent, sendpc, c2s, ucSrv, s2c, rbuf, recvpc, mtx, done, resp, cbset, cbret, gated,
                 ucStop, ucCount, th, ustopped, panicked>>

\* ------------------------------------------------------------------ honest server (abci/server)   (Dev_ServerAtomic)
SrvHandle ==
  /\ Server = "honest" /\ ~srvClosed /\ c2s # << >>
  /\ LET r == Head(c2s)
         it == Res(reqs[r].typ, r) IN
     /\ c2s' = Tail(c2s) /\ app' = Append(app, r)
     /\ IF reqs[r].typ = "F" THEN s2c' = s2c \o Append(sbuf, it) /\ sbuf' = << >>
                             ELSE sbuf' = Append(sbuf, it) /\ s2c' = s2c
  /\ act' = A0("SrvHandle")
  /\ UNCHANGED <<ucClient, queue, sent, sendpc, pend, srvClosed, recvpc, mtx, done, resp, ucCb, ucStop, ucCount, th, h>>

\* the application panics while handling a request: handleRequests recovers, the connection is closed
SrvPanic ==
  /\ Server = "honest" /\ "panic" \in Faults /\ nfault < MaxFaults /\ ~srvClosed /\ c2s # << >>
  /\ app' = Append(app, Head(c2s)) /\ c2s' = << >> /\ sbuf' = << >>
  /\ s2c' = Append(s2c, Item("eof")) /\ srvClosed' = TRUE /\ nfault' = nfault + 1
  /\ act' = A0("SrvPanic")
  /\ UNCHANGED <<ucClient, queue, sent, sendpc, pend, recvpc, mtx, done, resp, ucCb, ucStop, ncalls, th, h>>

\* ------------------------------------------------------------------ raw server (scripted peer)
LastPartial == s2c # << >> /\ s2c[Len(s2c)].part
RawOpen == Server = "raw" /\ ~srvClosed /\ ~LastPartial
ucRaw == <<ucClient, queue, sent, sendpc, sbuf, recvpc, mtx, done, resp, ucCb, ucStop, ncalls, th, h>>

SrvGot ==
  /\ RawOpen /\ c2s # << >>
  /\ pend' = Append(pend, Head(c2s)) /\ app' = Append(app, Head(c2s)) /\ c2s' = Tail(c2s)
  /\ act' = [name |-> "SrvGot", r |-> Head(c2s)]
  /\ UNCHANGED <<ucRaw, s2c, srvClosed, nfault>>

SrvReply(part) ==
  /\ RawOpen /\ pend # << >> /\ (part => Chunked)
  /\ s2c' = Append(s2c, [Res(reqs[Head(pend)].typ, Head(pend)) EXCEPT !.part = part])
  /\ pend' = Tail(pend)
  /\ act' = [name |-> "SrvReply", r |-> Head(pend), part |-> part]
  /\ UNCHANGED <<ucRaw, app, c2s, srvClosed, nfault>>

SrvFinishFrame ==
  /\ Server = "raw" /\ ~srvClosed /\ LastPartial
  /\ s2c' = [s2c EXCEPT ![Len(s2c)].part = FALSE]
  /\ act' = A0("SrvFinishFrame")
  /\ UNCHANGED <<ucRaw, app, c2s, pend, srvClosed, nfault>>

Fault(f, ty) ==
  /\ Server = "raw" /\ ~srvClosed /\ f \in Faults /\ nfault < MaxFaults
  /\ ty \in {"A", "F"} /\ (f # "extra" => ty = "A")
  /\ nfault' = nfault + 1
  /\ CASE f = "wrongtype" ->   \* the answer to the oldest pending request has another type
            /\ ~LastPartial /\ pend # << >>
            /\ s2c' = Append(s2c, Res(OtherTyp(reqs[Head(pend)].typ), Head(pend))) /\ pend' = Tail(pend)
            /\ UNCHANGED <<srvClosed, c2s>>
       [] f = "swap" ->        \* the second pending request is answered first
            /\ ~LastPartial /\ Len(pend) >= 2
            /\ s2c' = Append(s2c, Res(reqs[pend[2]].typ, pend[2])) /\ pend' = AbRemove(pend, 2)
            /\ UNCHANGED <<srvClosed, c2s>>
       [] f = "extra" ->       \* a response nobody asked for (duplicate / unsolicited)
            /\ ~LastPartial
            /\ s2c' = Append(s2c, Res(ty, 0))
            /\ UNCHANGED <<pend, srvClosed, c2s>>
       [] f = "exception" ->
            /\ ~LastPartial /\ s2c' = Append(s2c, Item("exc")) /\ UNCHANGED <<pend, srvClosed, c2s>>
       [] f = "garbage" ->     \* bytes that do not decode
            /\ ~LastPartial /\ s2c' = Append(s2c, Item("bad")) /\ UNCHANGED <<pend, srvClosed, c2s>>
       [] f = "close" ->       \* the peer closes the socket
            /\ ~LastPartial /\ s2c' = Append(s2c, Item("eof")) /\ srvClosed' = TRUE /\ UNCHANGED <<pend, c2s>>
       [] f = "halfclose" ->   \* the peer shuts down its sending side only
            /\ ~LastPartial /\ s2c' = Append(s2c, Item("eof")) /\ UNCHANGED <<pend, srvClosed, c2s>>
       [] f = "midframe" ->    \* closed in the middle of a frame
            /\ LastPartial /\ s2c' = [s2c EXCEPT ![Len(s2c)] = Item("eof")] /\ srvClosed' = TRUE
            /\ UNCHANGED <<pend, c2s>>
  /\ act' = [name |-> "Fault", f |-> f, ty |-> ty]
  /\ UNCHANGED <<ucRaw, app>>

\* ------------------------------------------------------------------ next-state relation
ucGhost == <<rbuf, ustopped, panicked, cbq>>
InternalPlain ==
  \/ \E t \in Threads : Enq(t) \/ EnqF(t) \/ Chk(t) \/ Fin(t)
  \/ SendDequeue \/ SendTrack \/ SendWrite \/ SendSpill \/ SendQuit
  \/ RecvGcb \/ RecvRcb
  \/ StopBegin("send") \/ StopBegin("recv") \/ StopClose \/ StopQuit
  \/ SrvHandle
Internal ==
  \/ InternalPlain /\ UNCHANGED ucGhost
  \/ RecvRead \/ RecvDid \/ StopFlush \/ CbDispatch
  \/ \E t \in Threads : Drain(t)

EnvPlain ==
  \/ \E t \in Threads, kind \in CallKinds, g \in BOOLEAN : StartCall(t, kind, g)
  \/ \E t \in Threads, r \in DOMAIN reqs : SetCallback(t, r)
  \/ ReleaseGate \/ TimerFire \/ SrvPanic
  \/ SrvGot \/ SrvFinishFrame
  \/ \E p \in BOOLEAN : SrvReply(p)
  \/ \E f \in Faults, ty \in {"A", "F"} : Fault(f, ty)
Env == UStop \/ (EnvPlain /\ UNCHANGED ucGhost)

Next ==
  /\ ~panicked              \* the process is gone
  /\ \/ Internal
     \/ (Prio => ~ENABLED Internal) /\ Env

Spec == Init /\ [][Next]_vars

\* ------------------------------------------------------------------ observable projection (harness Obs lines)
Label(r) == IF reqs[r].typ = "F" THEN "F" ELSE "c" \o ToString(reqs[r].call)
Labels(q) == [i \in DOMAIN q |-> Label(q[i])]
GateActive == GatedNow # 0
Proj == [busy      |-> {t \in Threads : th[t].pc # "idle"},
         qlen      |-> Len(queue),
         sent      |-> Labels(sent),
         arrived   |-> Labels(c2s),
         pend      |-> Labels(pend),
         running   |-> ~stopped,
         quit      |-> quit,
         err       |-> IF err = "nil" THEN "nil" ELSE "err",
         gate      |-> IF GateActive THEN Label(GatedNow) ELSE "",
         ncbS      |-> Len(h.cblog) + (IF GateActive THEN 1 ELSE 0),
         ncbE      |-> Len(h.cblog),
         got       |-> {Label(r) : r \in {q \in DOMAIN reqs : reqs[q].async /\ reqs[q].typ # "F" /\ resp[q] # NoResp}},
         sendAlive |-> sendpc.pc # "exit",
         recvAlive |-> recvpc.pc # "exit"]

\* ------------------------------------------------------------------ properties
\* (1) PerConnectionFIFO
\* in order, each at most once; without gaps as long as the client has not been stopped
\* (a stopping client drops what is still queued)
AbOrderedSub(s, t) == /\ \A i \in DOMAIN s : AbIn(t, s[i])
                    /\ \A i, j \in DOMAIN s : i < j => AbPos(t, s[i]) < AbPos(t, s[j])
FIFO_App == AbOrderedSub(app, h.issued) /\ (~stopped => AbPrefix(app, h.issued))
RespOwn == ~h.lied => \A r \in DOMAIN resp : resp[r] # NoResp => resp[r].for = r
RespType == \A r \in DOMAIN resp : resp[r] # NoResp => resp[r].typ = reqs[r].typ
RespOrder == AbOrderedSub(h.matched, h.issued) /\ (~stopped => AbPrefix(h.matched, h.issued))
PerConnectionFIFO == FIFO_App /\ RespOwn /\ RespType /\ RespOrder

\* (2) FlushMeaning: a *Sync / FlushSync call that returns without error (and was not cut by
\*     the owner's Stop) returns after everything issued before its flush was handled and the
\*     callbacks for it have run; a *Sync call returns its own response
FlushMeaning ==
  \A i \in DOMAIN h.rets : LET x == h.rets[i] IN
     (IsSync(x.kind) /\ x.err = "nil" /\ ~x.ustopped) =>
        /\ x.ok
        /\ (x.r # 0 => (x.got = x.r \/ h.lied))

\* (3) CallbackOrder
CbOnce == \A r \in DOMAIN reqs : NCb("g", r) <= 1 /\ NCb("r", r) <= 1
CbInOrder ==   \* callbacks run by the recv routine: in request order, request callback right after the global one
  LET rc == SelectSeq(h.cblog, LAMBDA e : e.by = "recv")
      gs == SelectSeq(rc, LAMBDA e : e.k = "g") IN
  /\ AbPrefix([i \in DOMAIN gs |-> gs[i].r], h.matched)
  /\ \A i \in DOMAIN rc : rc[i].k = "r" => i > 1 /\ rc[i - 1].k = "g" /\ rc[i - 1].r = rc[i].r
CbNotLost == \A r \in cbret : r \in cbinv => HasCb("r", r)
CbOwn == \A i \in DOMAIN h.cblog : h.cblog[i].for = h.cblog[i].r \/ h.lied
CallbackOrder == CbOnce /\ CbInOrder /\ CbNotLost /\ CbOwn

\* (4) ErrorIsTerminal
NoPanic == ~panicked
\* corridor for schedule synthesis: the double Done() with at least two responses still buffered when
\* flushQueue ran (then the mutex hand-over of the Go runtime makes the real code follow the schedule)
NoPanicDeep == ~(panicked /\ h.flushrbuf >= 2)
\* ... and Stop() called while the recv routine is inside a callback (flushQueue then queues on cli.mtx)
NoPanicDeepStop == ~(panicked /\ h.flushrbuf >= 2 /\ h.ustopgate)
DoneOnce == \A r \in DOMAIN done : done[r] <= 1
Settled == stoppc = "done" /\ sendpc.pc = "exit" /\ recvpc.pc = "exit"
Stuck(t) == \/ th[t].pc = "wait" /\ done[th[t].f] = 0
            \/ th[t].pc \in {"enq", "enqf"} /\ ~CanEnq
NoStuckCaller == Settled => \A t \in Threads : ~Stuck(t)
NoStuckWaiter == Settled => \A t \in Threads : ~(Stuck(t) /\ th[t].pc = "wait")
NoStuckEnqueuer == Settled => \A t \in Threads : ~(Stuck(t) /\ th[t].pc # "wait")
\* once the recv routine has met a fault it handles nothing more, and it leaves the client stopped with an error
FaultStops == h.faultHit => /\ recvpc.pc \in {"stop", "stopping", "exit"}
                            /\ (recvpc.pc = "exit" /\ ~ustopped) => (stopped /\ err # "nil")
ErrSticky == \A i \in DOMAIN h.rets : LET x == h.rets[i] IN (x.r # 0 /\ x.got # 0 /\ ~h.lied) => x.got = x.r
\* a fault-free run against the honest server never stops the client
HonestNoError == (nfault = 0 /\ ~ustopped /\ ~h.lied) => (err = "nil" /\ ~stopped)
\* ... and when nothing more can happen by itself every call has returned
HonestProgress == (nfault = 0 /\ ~stopped /\ Server = "honest" /\ ~ENABLED Internal /\ gated = {})
                    => \A t \in Threads : th[t].pc = "idle"
ErrorIsTerminal == NoPanic /\ DoneOnce /\ NoStuckCaller /\ FaultStops /\ ErrSticky

View == <<reqs, queue, sent, sendpc, wbuf, c2s, pend, sbuf, app, s2c, rbuf, srvClosed, recvpc, mtx, done, resp,
          cbset, cbinv, cbret, err, stopped, stoppc, stopby, quit, connClosed, timerSet, ntimer, nfault,
          ncalls, th, gated, cbq, ustopped, panicked, h>>
=============================================================================
