---------------------------- MODULE TMSwitchSys ----------------------------
(* State machine over TMSwitch: the threads of one Switch (acceptRoutine, callers of DialPeerWithAddress, callers of
   StopPeerForError / StopPeerGracefully, reconnect loops) interleaved with its environment (incoming connections,
   outcome of Transport.Dial, Go map iteration order over the reactors).  `act` names the step for the replay.   *)
EXTENDS TMSwitch

VARIABLES S, act
vars == <<S, act>>

Init == S = InitState /\ act = [name |-> "Init", t |-> "-", a |-> "-", b |-> "-", n |-> 0, id |-> "-", pc |-> "-"]

ThreadStep(t) ==
  /\ Steppable(S, t)
  /\ \E r \in RChoices(S, t), o \in OChoices(S, t) :
       /\ (o = "ok" => Len(S.inst) < MaxInst)
       /\ S' = Step(S, t, r, o)
       /\ act' = [name |-> "Step", t |-> t, a |-> r, b |-> o, n |-> 0, id |-> S.thr[t].id, pc |-> S.thr[t].pc]

EnvDial(t, id) ==
  /\ S.thr[t].pc \in {"free", "done"} /\ S.nd < MaxDials
  /\ S' = SpawnDial(S, t, id)
  /\ act' = [name |-> "Dial", t |-> t, a |-> id, b |-> "-", n |-> 0, id |-> id, pc |-> "-"]

EnvStop(t, i, why) ==
  /\ S.thr[t].pc \in {"free", "done"} /\ S.ns < MaxStops
  /\ S.inst[i].st                       \* the caller got the reference through AddPeer / Receive: the peer was started
  /\ S' = SpawnStop(S, t, i, why)
  /\ act' = [name |-> "Stop", t |-> t, a |-> why, b |-> "-", n |-> i, id |-> S.inst[i].id, pc |-> "-"]

EnvIncoming(id) ==
  /\ S.nin < MaxIncoming /\ Len(S.inst) < MaxInst
  /\ S' = Incoming(S, id)
  /\ act' = [name |-> "Incoming", t |-> "-", a |-> id, b |-> "-", n |-> 0, id |-> id, pc |-> "-"]

AccStep ==
  /\ S.thr["acc"].pc = "idle" /\ S.pend # << >>
  /\ ~AsIs_NoLifecycleLock => S.lk = "-"
  /\ S' = AccTake(S)
  /\ act' = [name |-> "AccTake", t |-> "acc", a |-> "-", b |-> "-", n |-> 0, id |-> "-", pc |-> "-"]

Threads == \E t \in Tids : ThreadStep(t)
Env == \/ \E t \in DialTids, id \in NodeIDs : EnvDial(t, id)
       \/ \E t \in StopTids, i \in Insts(S), why \in {"err", "graceful"} : EnvStop(t, i, why)
       \/ \E id \in NodeIDs : EnvIncoming(id)
Next == Threads \/ AccStep \/ Env

Spec == Init /\ [][Next]_vars
\* weak fairness of every thread (a released goroutine runs) and of the accept routine; the environment is free
FairSpec == Spec /\ \A t \in Tids : WF_vars(ThreadStep(t)) /\ WF_vars(AccStep)

View == S

I_CallbackOrder       == CallbackOrder(S)
I_CallbackStates      == CallbackStates(S)
I_PeerSetCoversActive == PeerSetCoversActive(S)
I_SetMembersStarted   == SetMembersStarted(S)
I_NoZombieAtRest      == NoZombieAtRest(S)
I_OneDialPerID        == OneDialPerID(S)
I_OneReconnectLoop    == OneReconnectLoop(S)
I_NoOrphanMarks       == NoOrphanMarks(S)
I_ConnsCovered        == ConnsCovered(S)
I_ConnsAtRest         == ConnsAtRest(S)
I_MembersHaveConn     == MembersHaveConn(S)
I_InboundLimit        == InboundLimit(S)
I_UnconditionalExempt == UnconditionalExempt(S)
I_NoOverflow          == ~S.ovf
I_RedialAtRest        == RedialAtRest(S)
I_StaleErrStopIsNoop  == StaleErrStopIsNoop(S)
TypeOK == /\ S.dialing \subseteq NodeIDs /\ S.reconn \subseteq NodeIDs
          /\ \A t \in Tids : S.thr[t].pc \in {"free", "idle", "done", "dmark", "rcheck", "rmark", "RecLog", "Sleep", "Dial", "Filter", "Init",
                                               "Start", "Add", "AddPeer", "CleanupF", "CleanupL", "Cleanup", "Rem"}

\* liveness: a persistent peer stopped for error is dialled again (or is present again)
\* (a loop that sleeps with tries = MaxTries has reached the bound of the model: it would dial again)
Redial == \A n \in Persistent :
            (S.redial[n] = FALSE) ~> (\/ S.redial[n] = TRUE
                                      \/ \E t \in RecTids : S.thr[t].id = n /\ S.thr[t].pc = "Sleep" /\ S.thr[t].tries >= MaxTries)
=============================================================================
