------------------------------ MODULE TMMerkle ------------------------------
(* RFC-6962 style Merkle tree of crypto/merkle (tree.go, proof.go, hash.go) and the
   block part set of types/part_set.go.

   Hashes are symbolic and injective by construction: they are strings built by the
   constructors LeafH / InnerH (domain separation = distinct constructors).  Items
   (part payloads, transactions) are short strings.

   Two sub-systems live in this module:
     (1) the proof-binding case set  (Cases, ProofBinds)       -- pure case analysis
     (2) the part-set state machine  (PSInit/PSNext, PartBinds) -- delivery orders,
         repeats, mutated and transplanted parts
   Both are replayed on the real code and the observations are checked by
   TMMerkleTrace.tla.                                                              *)
EXTENDS Integers, Sequences, FiniteSets, TLC

CONSTANTS
  MaxLeaves,                  \* trees with 1..MaxLeaves leaves
  Weak_NoProofIndexBinding,   \* AddPart does not compare proof.index/total with part.index/header.total
  Weak_AuntLenUnchecked,      \* computeHashFromAunts ignores surplus aunts at a single leaf
  Weak_NoLeafCheck,           \* Verify does not compare the proof's leaf hash with the item
  Weak_TruncatedPosition      \* AddPart compares proof.index/total with part.index/header.total modulo 2^32 only

Nil == "nil"
ItemName(i) == SubSeq("abcdefghijklmnop", i, i)

\* ---------------------------------------------------------------- hashing (hash.go)
LeafH(x)     == "L(" \o x \o ")"
InnerH(l, r) == "I(" \o l \o "," \o r \o ")"
EmptyH       == "E()"

\* ---------------------------------------------------------------- tree.go
RECURSIVE Pow2Below(_, _)
Pow2Below(n, k) == IF 2 * k < n THEN Pow2Below(n, 2 * k) ELSE k
\* getSplitPoint: largest power of two strictly less than n  (n >= 2)
SplitPoint(n) == Pow2Below(n, 1)

RECURSIVE Root(_)
Root(leaves) ==
  IF Len(leaves) = 0 THEN EmptyH
  ELSE IF Len(leaves) = 1 THEN LeafH(leaves[1])
  ELSE LET k == SplitPoint(Len(leaves)) IN
       InnerH(Root(SubSeq(leaves, 1, k)), Root(SubSeq(leaves, k + 1, Len(leaves))))

\* aunts of leaf i (0-based), leaf's sibling first, root's child last (FlattenAunts)
RECURSIVE Aunts(_, _)
Aunts(leaves, i) ==
  IF Len(leaves) <= 1 THEN << >>
  ELSE LET n == Len(leaves)
           k == SplitPoint(n)
           l == SubSeq(leaves, 1, k)
           r == SubSeq(leaves, k + 1, n)
       IN IF i < k THEN Append(Aunts(l, i), Root(r))
                   ELSE Append(Aunts(r, i - k), Root(l))

\* big: the stated leaf count is total + big * 2^32 (TLC integers are 32-bit; Proof.Total is an int64 taken from the wire)
\* ibig: likewise the stated index is index + ibig * 2^32 (Proof.Index is an int64 from the wire, Part.Index a uint32)
Proof(leaves, i) == [total |-> Len(leaves), big |-> 0, index |-> i, ibig |-> 0, leaf |-> LeafH(leaves[i + 1]),
                     aunts |-> Aunts(leaves, i)]

\* ---------------------------------------------------------------- proof.go
\* computeHashFromAunts; Nil on any structural mismatch
RECURSIVE ComputeRoot(_, _, _, _)
ComputeRoot(index, total, leaf, aunts) ==
  IF index >= total \/ index < 0 \/ total <= 0 THEN Nil
  ELSE IF total = 1 THEN
         IF Len(aunts) # 0 /\ ~Weak_AuntLenUnchecked THEN Nil ELSE leaf
  ELSE IF Len(aunts) = 0 THEN Nil
  ELSE LET k    == SplitPoint(total)
           last == aunts[Len(aunts)]
           rest == SubSeq(aunts, 1, Len(aunts) - 1)
       IN IF index < k
          THEN LET h == ComputeRoot(index, k, leaf, rest) IN
               IF h = Nil THEN Nil ELSE InnerH(h, last)
          ELSE LET h == ComputeRoot(index - k, total - k, leaf, rest) IN
               IF h = Nil THEN Nil ELSE InnerH(last, h)

\* computeHashFromAunts on 64-bit numbers written hi * 2^32 + lo with small lo >= 0 (0 <= lo < 2^31, fewer than 32 aunts):
\*  - a total of thi * 2^32 exactly decomposes into complete subtrees of >= 2^32 leaves: every path has >= 32 aunts -> nil
\*  - a total of thi * 2^32 + tlo (tlo > 0) splits at P * 2^32, P the largest power of two <= thi; the left part is
\*    again a multiple of 2^32 (nil), the right part is (thi - P) * 2^32 + tlo
RECURSIVE Pow2AtMost(_, _)
Pow2AtMost(n, k) == IF 2 * k <= n THEN Pow2AtMost(n, 2 * k) ELSE k
RECURSIVE ComputeRootB(_, _, _, _, _, _)
ComputeRootB(ihi, ilo, thi, tlo, leaf, aunts) ==
  IF ihi = 0 /\ thi = 0 THEN ComputeRoot(ilo, tlo, leaf, aunts)
  ELSE IF ihi < 0 \/ thi <= 0 \/ ilo < 0 \/ tlo < 0 THEN Nil      \* index < 0, or index >= 2^32 > total
  ELSE IF ~(ihi < thi \/ (ihi = thi /\ ilo < tlo)) THEN Nil       \* index >= total
  ELSE IF tlo = 0 \/ Len(aunts) = 0 THEN Nil
  ELSE LET P    == Pow2AtMost(thi, 1)
           last == aunts[Len(aunts)]
           rest == SubSeq(aunts, 1, Len(aunts) - 1)
       IN IF ihi < P THEN Nil
          ELSE LET h == ComputeRootB(ihi - P, ilo, thi - P, tlo, leaf, rest) IN
               IF h = Nil THEN Nil ELSE InnerH(last, h)

\* Proof.Verify(root, item) = nil error.  Against the root of a modelled tree a proof stating 2^32 leaves or more never
\* verifies (33+ aunts); against a root CRAFTED by whoever signs the header it can (ComputeRootB).
Verify(p, root, item) ==
  /\ Len(p.aunts) < 32
  /\ p.total >= 0
  /\ p.index >= 0
  /\ (Weak_NoLeafCheck \/ p.leaf = LeafH(item))
  /\ ComputeRootB(p.ibig, p.index, p.big, p.total, p.leaf, p.aunts) = root

\* The sequence of left/right turns and the number of aunts the verifier consumes for
\* (index,total): two (index,total) pairs with the same shape are indistinguishable to
\* any verifier that only knows the root (the root does not commit to the leaf count).
RECURSIVE Shape(_, _)
Shape(index, total) ==
  IF index >= total \/ index < 0 \/ total <= 0 THEN <<"bad">>
  ELSE IF total = 1 THEN << >>
  ELSE LET k == SplitPoint(total) IN
       IF index < k THEN Append(Shape(index, k), "l") ELSE Append(Shape(index - k, total - k), "r")

\* ---------------------------------------------------------------- (1) proof-binding cases
LeavesOf(n) == [i \in 1..n |-> ItemName(i)]
\* a tree with a repeated item (positions 1 and n carry the same bytes)
LeavesDup(n) == [i \in 1..n |-> IF i = n THEN ItemName(1) ELSE ItemName(i)]

TreeHashes(leaves) ==
  LET n == Len(leaves) IN
  {LeafH(leaves[i]) : i \in 1..n} \cup {Root(SubSeq(leaves, a, b)) : a \in 1..n, b \in 1..n}

SeqMutations(s, pool) ==
  LET n == Len(s) IN
  {s}
  \cup (IF n > 0 THEN {SubSeq(s, 2, n), SubSeq(s, 1, n - 1)} ELSE {})
  \cup {Append(s, h) : h \in pool}
  \cup {<<h>> \o s : h \in pool}
  \cup {[s EXCEPT ![k] = h] : k \in 1..n, h \in pool}
  \cup {[j \in 1..n |-> IF j = k THEN s[k + 1] ELSE IF j = k + 1 THEN s[k] ELSE s[j]] : k \in 1..(n - 1)}

\* index / total shifted by multiples of 2^32 (ibig, big), and aunt lists with one hash more or one less at either end
HighBits == {<<0, 0>>, <<0, 1>>, <<1, 0>>, <<1, 1>>, <<2, 2>>, <<1, 2>>}
AuntEdits(s, pool) ==
  {s} \cup {Append(s, h) : h \in pool} \cup {<<h>> \o s : h \in pool}
      \cup (IF Len(s) > 0 THEN {SubSeq(s, 1, Len(s) - 1)} ELSE {})

\* every candidate (proof, claimed item) presented against Root(leaves) for position i
Candidates(leaves, i) ==
  LET n    == Len(leaves)
      g    == Proof(leaves, i)
      pool == TreeHashes(leaves) \cup {LeafH("zz")}
      its  == {leaves[j] : j \in 1..n} \cup {"zz"}
  IN   {[proof |-> [g EXCEPT !.index = k, !.total = t], item |-> leaves[i + 1], mut |-> "index_total"] :
           k \in -1..(n + 2), t \in -1..(n + 3)}
  \cup {[proof |-> [g EXCEPT !.total = t, !.big = b], item |-> leaves[i + 1], mut |-> "total_high_bits"] :
           t \in {n, n + 1}, b \in {1, 3, 1024}}
  \cup {[proof |-> [g EXCEPT !.ibig = hb[1], !.big = hb[2], !.aunts = a], item |-> leaves[i + 1], mut |-> "high_bits"] :
           hb \in HighBits \ {<<0, 0>>}, a \in AuntEdits(g.aunts, {LeafH("zz"), Root(leaves)})}
  \cup {[proof |-> [g EXCEPT !.leaf = h], item |-> leaves[i + 1], mut |-> "leaf"] : h \in pool}
  \cup {[proof |-> g, item |-> x, mut |-> "item"] : x \in its}
  \cup {[proof |-> [g EXCEPT !.leaf = LeafH(x)], item |-> x, mut |-> "leaf_and_item"] : x \in its}
  \cup {[proof |-> [g EXCEPT !.aunts = a], item |-> leaves[i + 1], mut |-> "aunts"] :
           a \in SeqMutations(g.aunts, pool)}
  \cup {[proof |-> Proof(leaves, j), item |-> leaves[i + 1], mut |-> "transplant"] : j \in 0..(n - 1)}
  \cup {[proof |-> [Proof(leaves, j) EXCEPT !.index = i], item |-> leaves[j + 1], mut |-> "transplant_reindex"] :
           j \in 0..(n - 1)}

AllLeaves == {LeavesOf(n) : n \in 1..MaxLeaves} \cup {LeavesDup(n) : n \in 3..MaxLeaves}
Cases ==
  UNION {UNION {{[leaves |-> lv, pos |-> i, proof |-> c.proof, item |-> c.item, mut |-> c.mut] :
                   c \in Candidates(lv, i)} : i \in 0..(Len(lv) - 1)} : lv \in AllLeaves}
RealCases == Cases

\* what the property demands of an accepted (proof,item) against Root(leaves)
Binds(leaves, p, item) ==
  /\ p.total = Len(leaves) /\ p.big = 0 /\ p.ibig = 0
  /\ p.index \in 0..(Len(leaves) - 1)
  /\ item = leaves[p.index + 1]

\* the one way the bare verifier can be satisfied by a non-genuine (index,total): the
\* claimed pair has the same shape as a genuine position holding that item
ShapeAlias(leaves, p, item) ==
  \E j \in 0..(Len(leaves) - 1) :
     /\ leaves[j + 1] = item
     /\ p.big = 0 /\ p.ibig = 0
     /\ Shape(p.index, p.total) = Shape(j, Len(leaves))
     /\ p.aunts = Aunts(leaves, j)
     /\ p.leaf = LeafH(item)

ProofBindsCase(c)     == Verify(c.proof, Root(c.leaves), c.item) => Binds(c.leaves, c.proof, c.item)
ProofBindsUpToShape(c) == Verify(c.proof, Root(c.leaves), c.item) =>
                            (Binds(c.leaves, c.proof, c.item) \/ ShapeAlias(c.leaves, c.proof, c.item))
GenuineVerifies(c)    == (c.proof = Proof(c.leaves, c.pos) /\ c.item = c.leaves[c.pos + 1]) =>
                            Verify(c.proof, Root(c.leaves), c.item)

\* ---------------------------------------------------------------- (2) part set (part_set.go)
\* A part = [index, bytes, proof].  The header = [total, root].
PartCandidates(leaves) ==
  LET n == Len(leaves) IN
  UNION {
       {[index |-> i, bytes |-> leaves[i + 1], proof |-> Proof(leaves, i), mut |-> "genuine"]}
  \cup {[index |-> i, bytes |-> leaves[j + 1], proof |-> Proof(leaves, j), mut |-> "whole_transplant"] : j \in 0..(n - 1)}
  \cup {[index |-> i, bytes |-> leaves[j + 1], proof |-> Proof(leaves, i), mut |-> "bytes_transplant"] : j \in 0..(n - 1)}
  \cup {[index |-> i, bytes |-> leaves[j + 1], proof |-> [Proof(leaves, j) EXCEPT !.index = i], mut |-> "transplant_reindex"] : j \in 0..(n - 1)}
  \cup {[index |-> i, bytes |-> leaves[i + 1], proof |-> [Proof(leaves, i) EXCEPT !.total = n + 1], mut |-> "total"]}
  \cup {[index |-> i, bytes |-> "zz", proof |-> [Proof(leaves, i) EXCEPT !.leaf = LeafH("zz")], mut |-> "foreign"]}
  \cup {[index |-> n + 1, bytes |-> leaves[i + 1], proof |-> Proof(leaves, i), mut |-> "index_oob"]}
  \cup {[index |-> n, bytes |-> leaves[i + 1], proof |-> Proof(leaves, i), mut |-> "index_eq_total"]}
  : i \in 0..(n - 1)}

\* Headers a part set can be created from (NewPartSetFromHeader takes what the proposer signed): the genuine one and
\* crafted ones whose root wraps the genuine root with one more inner node.
GenuineHeader(leaves) == [total |-> Len(leaves), root |-> Root(leaves)]
CraftPool(leaves) == {LeafH("zz"), Root(leaves)}
Headers(leaves) ==
  {GenuineHeader(leaves)}
  \cup {[total |-> Len(leaves), root |-> InnerH(x, Root(leaves))] : x \in CraftPool(leaves)}
  \cup {[total |-> Len(leaves), root |-> InnerH(Root(leaves), x)] : x \in CraftPool(leaves)}

\* genuine bytes at their own position, proof index/total shifted by k * 2^32, aunts extended / shortened
HighBitCandidates(leaves) ==
  UNION {{[index |-> i, bytes |-> leaves[i + 1],
           proof |-> [Proof(leaves, i) EXCEPT !.ibig = hb[1], !.big = hb[2], !.aunts = a], mut |-> "high_bits"] :
             hb \in HighBits, a \in AuntEdits(Aunts(leaves, i), CraftPool(leaves))} : i \in 0..(Len(leaves) - 1)}

\* the aunts presented authenticate LeafH(bytes) at (part.index, header.total) under the header's root: what
\* "the i-th piece of the data committed to by the header's root and part count" means for the presented path
PosProven(hdr, p) ==
  /\ p.index >= 0 /\ p.index < hdr.total
  /\ ComputeRoot(p.index, hdr.total, LeafH(p.bytes), p.proof.aunts) = hdr.root

\* AddPart: returns [slots, added, err]
AddPart(hdr, slots, p) ==
  IF p.index >= hdr.total THEN [slots |-> slots, added |-> FALSE, err |-> "UnexpectedIndex"]
  ELSE IF slots[p.index + 1] # Nil THEN [slots |-> slots, added |-> FALSE, err |-> "none"]
  ELSE IF ~Weak_NoProofIndexBinding
          /\ (p.proof.index # p.index \/ p.proof.total # hdr.total
              \/ (~Weak_TruncatedPosition /\ (p.proof.big # 0 \/ p.proof.ibig # 0)))
       THEN [slots |-> slots, added |-> FALSE, err |-> "InvalidProof"]
  ELSE IF ~Verify(p.proof, hdr.root, p.bytes) THEN [slots |-> slots, added |-> FALSE, err |-> "InvalidProof"]
  ELSE [slots |-> [slots EXCEPT ![p.index + 1] = p.bytes], added |-> TRUE, err |-> "none"]

Count(slots) == Cardinality({i \in DOMAIN slots : slots[i] # Nil})
Complete(slots) == Count(slots) = Len(slots)

PartBindsAt(leaves, slots) == \A i \in DOMAIN slots : slots[i] # Nil => slots[i] = leaves[i]

=============================================================================
