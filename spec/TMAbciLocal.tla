---------------------------- MODULE TMAbciLocal ----------------------------
(* abci/client/local_client.go as proxy.NewLocalClientCreator uses it: the four logical
   connections (consensus, mempool, query, snapshot) are four localClients that share ONE
   mutex and one Application.

   A call on a connection:  mtx.Lock ; Application.X(req) ; (Async only) global callback ;
   deferred mtx.Unlock ; return.  What the code guarantees - and what it does not:
     * every *Async call except FlushAsync and every *Sync call except FlushSync / EchoSync
       holds the shared mutex while the application runs, so the application never sees two
       calls at once, whatever connections they come from;
     * the global callback of an Async call runs inside the call, under the same mutex
       (so it is serialised with application calls of all four connections);
     * Dev_NoMutex: FlushSync, FlushAsync and EchoSync neither take the mutex nor reach the
       application: FlushSync returns at once even while another goroutine's request is
       inside the application (FlushMeaning holds for the caller's own earlier calls, which
       are complete when they return; the mempool relies on its own lock for the rest);
     * a *Sync call does not run the global callback.
   Gates: the scripted application can block inside a handler until released (replay).   *)
EXTENDS Integers, Sequences, FiniteSets, TLC

CONSTANTS
  Conns,       \* logical connections (one caller goroutine each)
  MaxCalls,
  Kinds,       \* subset of {"Async", "Sync", "FlushSync", "FlushAsync", "EchoSync"}
  Gates,       \* the application may block in a handler until released
  Prio,        \* environment steps only when no internal step is enabled (replay)
  Weak_LocalClientPerConnMutex,   \* NewLocalClient(nil, app) per connection: four mutexes
  Weak_SyncWithoutMutex,          \* a *Sync method forgets the lock
  Weak_CallbackOutsideMutex       \* an *Async method unlocks before it runs the global callback

VARIABLES
  holder,   \* shared mutex: 0 or the call holding it;  with Weak_LocalClientPerConnMutex: per connection
  cl,       \* per connection: [pc, kind, call, gate]
  inapp,    \* calls inside an application handler
  gated,    \* calls blocked at a gate inside the application, in order of arrival
  cbopen,   \* calls whose global callback is running
  cbgated,  \* calls blocked at a gate inside their global callback, in order of arrival
  appseq,   \* calls in the order the application saw them
  cbseq,    \* calls in the order their global callback ran
  ncalls,
  act
vars == <<holder, cl, inapp, gated, cbopen, cbgated, appseq, cbseq, ncalls, act>>

Idle == [pc |-> "idle", kind |-> "-", call |-> 0, gate |-> "none"]
NoMutexKind(k) == k \in {"FlushSync", "FlushAsync", "EchoSync"}
MutexOf(c) == IF Weak_LocalClientPerConnMutex THEN c ELSE "shared"
Lockless(c) == Weak_SyncWithoutMutex /\ cl[c].kind = "Sync"

Init ==
  /\ holder = [m \in Conns \cup {"shared"} |-> 0]
  /\ cl = [c \in Conns |-> Idle]
  /\ inapp = {} /\ gated = << >> /\ cbopen = {} /\ cbgated = << >> /\ appseq = << >> /\ cbseq = << >> /\ ncalls = 0
  /\ act = [name |-> "Init"]

StartCall(c, kind, gate) ==
  /\ cl[c].pc = "idle" /\ ncalls < MaxCalls /\ kind \in Kinds
  /\ gate \in {"none", "app", "cb"}
  /\ gate # "none" => (Gates /\ ~NoMutexKind(kind))
  /\ gate = "cb" => kind = "Async"
  /\ ncalls' = ncalls + 1
  /\ cl' = [cl EXCEPT ![c] = [pc |-> IF NoMutexKind(kind) THEN "ret" ELSE "lock", kind |-> kind, call |-> ncalls + 1, gate |-> gate]]
  /\ act' = [name |-> "StartCall", conn |-> c, kind |-> kind, call |-> ncalls + 1, gate |-> gate]
  /\ UNCHANGED <<holder, inapp, gated, cbopen, cbgated, appseq, cbseq>>

\* app.mtx.Lock()
Lock(c) ==
  /\ cl[c].pc = "lock"
  /\ IF Lockless(c) THEN UNCHANGED holder
     ELSE holder[MutexOf(c)] = 0 /\ holder' = [holder EXCEPT ![MutexOf(c)] = cl[c].call]
  /\ cl' = [cl EXCEPT ![c].pc = "app"]
  /\ act' = [name |-> "Lock", conn |-> c]
  /\ UNCHANGED <<inapp, gated, cbopen, cbgated, appseq, cbseq, ncalls>>

\* app.Application.X(req): the handler is entered
AppEnter(c) ==
  /\ cl[c].pc = "app"
  /\ inapp' = inapp \cup {cl[c].call}
  /\ appseq' = Append(appseq, cl[c].call)
  /\ IF cl[c].gate = "app" THEN gated' = Append(gated, cl[c].call) /\ cl' = [cl EXCEPT ![c].pc = "ingate"]
                         ELSE gated' = gated /\ cl' = [cl EXCEPT ![c].pc = "appdone"]
  /\ act' = [name |-> "AppEnter", conn |-> c]
  /\ UNCHANGED <<holder, cbopen, cbgated, cbseq, ncalls>>

ReleaseApp ==
  /\ gated # << >>
  /\ \E c \in Conns : /\ cl[c].call = Head(gated) /\ cl[c].pc = "ingate"
                      /\ cl' = [cl EXCEPT ![c].pc = "appdone"]
  /\ gated' = Tail(gated)
  /\ act' = [name |-> "ReleaseApp"]
  /\ UNCHANGED <<holder, inapp, cbopen, cbgated, appseq, cbseq, ncalls>>

AppLeave(c) ==
  /\ cl[c].pc = "appdone"
  /\ inapp' = inapp \ {cl[c].call}
  /\ cl' = [cl EXCEPT ![c].pc = IF cl[c].kind = "Async" THEN "cb" ELSE "unlock"]
  /\ holder' = IF Weak_CallbackOutsideMutex /\ cl[c].kind = "Async" /\ ~Lockless(c)
                 THEN [holder EXCEPT ![MutexOf(c)] = 0] ELSE holder
  /\ act' = [name |-> "AppLeave", conn |-> c]
  /\ UNCHANGED <<gated, cbopen, cbgated, appseq, cbseq, ncalls>>

\* localClient.callback: app.Callback(req, res) starts, still under the mutex
CbEnter(c) ==
  /\ cl[c].pc = "cb"
  /\ cbopen' = cbopen \cup {cl[c].call}
  /\ IF cl[c].gate = "cb" THEN cbgated' = Append(cbgated, cl[c].call) /\ cl' = [cl EXCEPT ![c].pc = "cbgate"]
                        ELSE cbgated' = cbgated /\ cl' = [cl EXCEPT ![c].pc = "cbdone"]
  /\ act' = [name |-> "CbEnter", conn |-> c]
  /\ UNCHANGED <<holder, inapp, gated, appseq, cbseq, ncalls>>

ReleaseCb ==
  /\ cbgated # << >>
  /\ \E c \in Conns : /\ cl[c].call = Head(cbgated) /\ cl[c].pc = "cbgate"
                      /\ cl' = [cl EXCEPT ![c].pc = "cbdone"]
  /\ cbgated' = Tail(cbgated)
  /\ act' = [name |-> "ReleaseCb"]
  /\ UNCHANGED <<holder, inapp, gated, cbopen, appseq, cbseq, ncalls>>

Cb(c) ==
  /\ cl[c].pc = "cbdone"
  /\ cbseq' = Append(cbseq, cl[c].call)
  /\ cbopen' = cbopen \ {cl[c].call}
  /\ cl' = [cl EXCEPT ![c].pc = "unlock"]
  /\ act' = [name |-> "Cb", conn |-> c]
  /\ UNCHANGED <<holder, inapp, gated, cbgated, appseq, ncalls>>

Unlock(c) ==
  /\ cl[c].pc = "unlock"
  /\ holder' = IF Lockless(c) \/ (Weak_CallbackOutsideMutex /\ cl[c].kind = "Async") THEN holder
                 ELSE [holder EXCEPT ![MutexOf(c)] = 0]
  /\ cl' = [cl EXCEPT ![c] = Idle]
  /\ act' = [name |-> "Unlock", conn |-> c]
  /\ UNCHANGED <<inapp, gated, cbopen, cbgated, appseq, cbseq, ncalls>>

\* FlushSync / FlushAsync / EchoSync return without touching mutex or application (Dev_NoMutex)
Ret(c) ==
  /\ cl[c].pc = "ret"
  /\ cl' = [cl EXCEPT ![c] = Idle]
  /\ act' = [name |-> "Ret", conn |-> c]
  /\ UNCHANGED <<holder, inapp, gated, cbopen, cbgated, appseq, cbseq, ncalls>>

Internal == \E c \in Conns : Lock(c) \/ AppEnter(c) \/ AppLeave(c) \/ CbEnter(c) \/ Cb(c) \/ Unlock(c) \/ Ret(c)
Env == ReleaseApp \/ ReleaseCb \/ \E c \in Conns, k \in Kinds, g \in {"none", "app", "cb"} : StartCall(c, k, g)
Next == Internal \/ ((Prio => ~ENABLED Internal) /\ Env)

\* (5) LocalClientSerialises
AppExclusive == Cardinality(inapp) <= 1
CallbackUnderMutex == cbopen # {} => (inapp = {} /\ Cardinality(cbopen) = 1)
LocalClientSerialises == AppExclusive /\ CallbackUnderMutex
\* the callback of an Async call runs exactly once, after the application handled the request, before the call returns
LocalCallbacks == /\ \A i, j \in DOMAIN cbseq : i # j => cbseq[i] # cbseq[j]
                  /\ \A i \in DOMAIN cbseq : \E k \in DOMAIN appseq : appseq[k] = cbseq[i]

\* observable projection (harness LObs lines)
LProj == [busy  |-> {c \in Conns : cl[c].pc # "idle"},
          inapp |-> [i \in DOMAIN gated |-> "c" \o ToString(gated[i])],
          incb  |-> [i \in DOMAIN cbgated |-> "c" \o ToString(cbgated[i])],
          atlock |-> {c \in Conns : cl[c].pc = "lock"},
          ncb   |-> Len(cbseq)]

View == <<holder, cl, inapp, gated, cbopen, cbgated, appseq, cbseq, ncalls>>
=============================================================================
