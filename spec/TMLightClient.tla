---------------------------- MODULE TMLightClient ----------------------------
(* Design state machine of the light client over TMLight (operators) and TMLightWorld
   (bounded universe).  One behaviour = one client life:

     Init          a scenario is chosen: the persona (answer table) of the primary and of
                   each witness, the verification mode, the trust root
     Start(s)      light.NewClient on an empty store (initializeWithTrustOptions +
                   compareFirstHeaderWithWitnesses) with reply schedule s
     VerifyCall(h, s)  Client.VerifyLightBlockAtHeight(h, now) with reply schedule s
     UpdateStep(s) Client.Update(now)
     Tick          local time moves past the expiry of the early headers

   The schedule s (a permutation of the witness names, used for every fan-out of the call)
   is the order in which the concurrent witness replies are consumed -- by
   detectDivergence, findNewPrimary and compareFirstHeaderWithWitnesses.  `act` records what the step showed (requests and
   answers, result class, evidence, ghost attackers); the properties are predicates on it
   and are the same predicates the trace specification evaluates on observed calls.   *)
EXTENDS TMLight, TMLightWorld

CONSTANTS
  H,               \* chain height
  NWit,            \* number of witnesses
  MaxCalls,        \* Verify/Update calls per behaviour
  PrimaryPersonas, WitnessPersonas,   \* sets of persona names
  Modes,           \* subset of {"skip", "seq"}
  Roots,           \* trust-root heights
  Nows,            \* values of `now` after Tick (the initial now is 60)
  WithUpdate       \* BOOLEAN: Client.Update is among the calls

VARIABLES scen, cl, cnt, now, ncalls, started, act
vars == <<scen, cl, cnt, now, ncalls, started, act>>

WitNames == [i \in 1..NWit |-> "w" \o ToString(i)]
ProvNames == {"p"} \cup Range(WitNames)
Perms == {s \in [1..NWit -> Range(WitNames)] : \A i, j \in 1..NWit : i # j => s[i] # s[j]}
\* In the repaired code every witness sends exactly one value, so permutations are all
\* orders.  Under Weak_MismatchAlsoCountsAsMatch (the shipped double send) only the orders
\* in which a witness' two values are adjacent in the channel are modelled (TMLight!Channel)
\* -- the ones a gate-forced replay can produce, and enough to refute the properties.

Cfg(mode) == [period |-> 100, drift |-> 5, num |-> 1, den |-> 3, mode |-> mode,
              rollback |-> ~Weak_PromotedWitnessStays]
\* constant-level tables (evaluated once by TLC)
WB == WorldBlocks(H)
PersonaTab == [n \in PrimaryPersonas \cup WitnessPersonas |-> Persona(H, n)]
CfgTab == [m \in Modes |-> Cfg(m)]
RootName == [h \in Roots |-> RName(h)]
SC == [blocks |-> WB,
       prov   |-> [n \in ProvNames |-> PersonaTab[scen.pers[n]]],
       cfg    |-> CfgTab[scen.mode]]
ZeroCnt == [n \in ProvNames |-> [i \in 1..(H + 1) |-> 0]]
Hids(ids) == {SC.blocks[b].hid : b \in ids}
NoAct == [name |-> "Init", h |-> 0, now |-> 0, sched |-> << >>, res |-> Nil, obs |-> << >>, ev |-> << >>,
          att |-> {}, pre |-> {}, post |-> {}, primary |-> "p"]

Init ==
  /\ scen \in [pers : [ProvNames -> PrimaryPersonas \cup WitnessPersonas], mode : Modes, root : Roots]
  /\ scen.pers["p"] \in PrimaryPersonas
  /\ \A i \in 1..NWit : scen.pers[WitNames[i]] \in WitnessPersonas
  /\ cl = [store |-> {}, latest |-> Nil, primary |-> "p", wits |-> WitNames]
  /\ cnt = ZeroCnt
  /\ now = 60
  /\ ncalls = 0
  /\ started = FALSE
  /\ act = NoAct

Start(s) ==
  /\ ~started
  /\ LET r == InitClient(SC, "p", WitNames, cnt, scen.root, RootName[scen.root], <<s>>) IN
     /\ started' = TRUE
     /\ cl' = r.x.cl
     /\ cnt' = r.x.cnt
     /\ act' = [NoAct EXCEPT !.name = "Start", !.h = scen.root, !.sched = s, !.res = r.res, !.obs = r.x.reqs,
                             !.post = Hids(r.x.cl.store), !.primary = r.x.cl.primary]
  /\ UNCHANGED <<scen, now, ncalls>>

VerifyCall(h, s) ==
  /\ started /\ cl.store # {} /\ ncalls < MaxCalls
  /\ LET r == VerifyAtHeight(SC, cl, cnt, h, now, <<s>>) IN
     /\ cl' = r.x.cl
     /\ cnt' = r.x.cnt
     /\ act' = [name |-> "Verify", h |-> h, now |-> now, sched |-> s, res |-> r.res, obs |-> r.x.reqs,
                ev |-> r.x.ev, att |-> r.x.att, pre |-> Hids(cl.store), post |-> Hids(r.x.cl.store),
                primary |-> r.x.cl.primary]
  /\ ncalls' = ncalls + 1
  /\ UNCHANGED <<scen, now, started>>

\* Client.Update(now): verify the primary's latest block if it is above the latest trusted one
UpdateStep(s) ==
  /\ started /\ cl.store # {} /\ ncalls < MaxCalls /\ WithUpdate
  /\ LET r == UpdateCall(SC, cl, cnt, now, <<s>>) IN
     /\ cl' = r.x.cl
     /\ cnt' = r.x.cnt
     /\ act' = [name |-> "Update", h |-> 0, now |-> now, sched |-> s, res |-> r.res, obs |-> r.x.reqs,
                ev |-> r.x.ev, att |-> r.x.att, pre |-> Hids(cl.store), post |-> Hids(r.x.cl.store),
                primary |-> r.x.cl.primary]
  /\ ncalls' = ncalls + 1
  /\ UNCHANGED <<scen, now, started>>

Tick ==
  /\ started /\ now = 60 /\ ncalls < MaxCalls
  /\ now' \in Nows
  /\ act' = [NoAct EXCEPT !.name = "Tick"]
  /\ UNCHANGED <<scen, cl, cnt, ncalls, started>>

Next == \/ \E s \in Perms : Start(s)
        \/ \E h \in 1..H, s \in Perms : VerifyCall(h, s)
        \/ \E s \in Perms : UpdateStep(s)
        \/ Tick
Spec == Init /\ [][Next]_vars

\* exhaustive configurations identify states that differ only in the schedule that led to
\* them (the properties do not read it); the replay configuration keeps it
CView == <<scen, cl, cnt, now, ncalls, started, [act EXCEPT !.sched = << >>]>>

\* ---------------------------------------------------------------- properties (C09)
IsCall == act.name \in {"Verify", "Update"}
\* NewClient stores nothing but the header named by the trust options
TrustRootOnly == act.name = "Start" => act.post \subseteq {RootName[scen.root]}

\* every header stored by a call is reachable from the headers trusted before it by steps
\* that satisfy the statement's conditions, through blocks the client was shown
StoreSound == IsCall => Unsound(SC, act.pre, act.post, act.obs, act.now) = {}

\* a header stored by forward verification was returned, identically, by a witness
WitnessConfirmed == IsCall => Unconfirmed(SC, act.pre, act.post, act.obs, act.primary) = {}

\* ... and not only by the primary itself in the role of a witness
IndependentWitness == IsCall => SelfConfirmed(SC, act.pre, act.post, act.obs, act.primary) = {}

\* when every witness was silent / sent an error / sent a different header, nothing is stored
NoConfirmationFromSilence ==
  (IsCall /\ act.post # act.pre
     /\ \E b \in Variants(SC, DOMAIN SC.blocks, act.post \ act.pre) : SC.blocks[b].h > MinH(SC, act.pre))
  => \E i \in DetResponses(act.obs, act.primary) :
        IsBlk(SC, act.obs[i].r) /\ SC.blocks[act.obs[i].r].hid \in act.post \ act.pre

\* a witness that can back a different header => attack error with evidence
AttackReported == IsCall => AttackHandled(act.att, act.res, {e.to : e \in Range(act.ev)})

\* ORDER INDEPENDENCE of the verdict: whether the call ends with the attack error is decided by
\* whether SOME witness can back a different header (the ghost act.att, computed per
\* (witness, header) right after the comparison round, the same for every arrival order of
\* the replies) -- never by which reply happened to be processed first
OrderIndependent == (IsCall /\ \E i \in DOMAIN act.obs : act.obs[i].ph = "det")
                    => ((act.res = "Attack") <=> (act.att # {}))
\* in particular a backing witness is never outvoted by an accomplice of the primary
AttackerNeverOutvoted == (IsCall /\ act.att # {}) => act.post = act.pre

\* an attack error is never followed by storing the header
AttackStoresNothing == (IsCall /\ act.res # Nil) => act.post = act.pre

\* the store only grows, the witness list never contains a name twice
StoreMonotone == IsCall => act.pre \subseteq act.post
=============================================================================
