------------------------------ MODULE TMFastSyncOps ---------------------------
(* Block sync ("fast sync") v0: blockchain/v0/pool.go, blockchain/v0/reactor.go, and the
   hand-over to consensus (consensus/reactor.go SwitchToConsensus ->
   consensus/state.go reconstructLastCommit -> types.CommitToVoteSet).

   One syncing node, a canonical chain C[1..T] with per-height validator sets, peers that
   are honest or liars.  Goroutines of the implementation are independent actions:

     makeRequestersRoutine   -> MakeRequester
     bpRequester.requestRoutine (pick a peer, send the request, reset after redo)
                             -> Pick(h,p)          (redo/reset is folded into PoolRemove)
     Reactor.Receive         -> Status(p,s), Response(p,h,kind)   (SetPeerRange / AddBlock)
     bpPeer.onTimeout        -> Timeout(p)
     poolRoutine errorsCh    -> ErrStop(p)          (Switch.StopPeerForError)
     poolRoutine didProcessCh-> TrySyncFail / TrySyncSave ; TrySyncApply
     poolRoutine switchToConsensusTicker -> Handover

   Values.  A commit is [h, bid, slots]: the height and block id it claims and one slot
   per validator of the set it was made for.  Slot classes (what the bytes ARE, decided
   by signature verification against validator i of the set):
       "A" absent                           "C" commit flag, valid signature over bid
       "X" commit flag, invalid signature   "R" commit flag, valid signature, wrong address
       "N" nil flag, valid signature        "M" nil flag, invalid signature
       "Q" nil flag, valid signature, wrong address  (a genuine nil precommit re-labelled)
   A block is [h, id, uid, lc, valid]: id names the header hash, uid names the complete
   bytes (hence the part-set header), lc = its LastCommit (a commit for h-1), valid = the
   header passes state/validation.go against the canonical state (the LastCommit check of
   validateBlock is modelled separately, see ValidateBlock).  A BlockID is [hash, psh].
   Header.LastCommitHash = Commit.Hash() covers ONLY the signature slots, not the commit's
   height, round or BlockID (types/block.go Commit.Hash): a block whose LastCommit has other
   slots has another id; a block whose LastCommit only claims another height / BlockID has
   the SAME id as the canonical block and differs in uid (part-set header) alone.       *)
EXTENDS Integers, Sequences, FiniteSets, TLC

CONSTANTS
  T,                        \* tip of the canonical chain
  Peers, Honest,            \* peer ids (strings); Honest \subseteq Peers
  ValsAt,                   \* [1..T+1 -> Seq(Nat)] voting powers in validator-set order
  NilAt,                    \* heights at which the LAST validator of the set genuinely precommitted nil
                            \* (legal: > 2/3 still committed the block; the canonical commit then carries an "N" slot)
  LieKinds,                 \* response kinds available to liars (see BlockOfKind)
  LiarStatus,               \* set of [base, height] records liars may report
  MaxLies, MaxJoins, MaxReq, MaxStatus, \* model bounds: lying responses per run, joins per peer, requesters, liar status reports
  Weak_NoCommitVerify,      \* poolRoutine does not call VerifyCommitLight
  Weak_SaveBeforeValidate,  \* SaveBlock(first) runs before the verification result is looked at
  Weak_NoRedo,              \* on failure: no RedoRequest, no StopPeerForError
  Weak_SeenCommitUnchecked, \* second.LastCommit is stored as seen commit after the early-exit check only
  MaxRetry,                 \* model bound: firings of the 30 s request retry timer per behaviour
  MaxPending, PerPeer,      \* maxPendingRequests (600) and maxPendingRequestsPerPeer (20) of pool.go; the MC configs scale them down
  Weak_ResetKeepsOwner,     \* bpRequester.reset does not clear peerID: an UNASSIGNED requester still takes a block of its last peer
  Weak_AcceptsFromPreviousPeer, \* bpRequester.setBlock also takes a block from the peer asked BEFORE the last reset
  Weak_RedoAlwaysCountsPending, \* bpRequester.reset adds 1 to pool.numPending even when the requester held no block
  Weak_NilSlotAddressUnchecked, \* VerifySeenCommit compares the validator address of commit-flag slots only
  Weak_StaleMaxPeerHeight,  \* SetPeerRange never lowers maxPeerHeight
  Weak_NoBlockValidation,   \* poolRoutine does not call ValidateBlock(first)
  Weak_PartSetNotCompared   \* the BlockID handed to the commit check carries the commit's own part-set header
                            \* (e.g. firstID built without MakePartSet): only the hash is compared

Nil      == "nil"
NoBID    == [hash |-> "none", psh |-> "none"]
NoCommit == [h |-> 0, bid |-> NoBID, slots |-> << >>]
NilBlk   == [h |-> 0, id |-> Nil, uid |-> Nil, lc |-> NoCommit, valid |-> FALSE]
BID(b)   == [hash |-> b.id, psh |-> b.uid]

\* ------------------------------------------------------------------ arithmetic
RECURSIVE SumSeq(_)
SumSeq(s) == IF Len(s) = 0 THEN 0 ELSE s[1] + SumSeq(Tail(s))
Total(pows) == SumSeq(pows)
\* as the code computes it (types/validator_set.go: tallied > total*2/3) ...
QuorumCode(t, total) == t > (total * 2) \div 3
\* ... and as the property states it
QuorumStmt(t, total) == 3 * t > 2 * total
ASSUME \A total \in 0..12 : \A t \in 0..12 : QuorumCode(t, total) = QuorumStmt(t, total)

RECURSIVE Concat(_)
Concat(s) == IF Len(s) = 0 THEN "" ELSE s[1] \o Concat(Tail(s))
Min(a, b) == IF a < b THEN a ELSE b
Abs(x) == IF x < 0 THEN -x ELSE x

\* ------------------------------------------------------------------ commit verification
\* types/validator_set.go VerifyCommitLight: size, height, block id; then slot by slot:
\* skip everything that is not a commit-flag slot, fail on an invalid signature, return at
\* the first moment the tally exceeds 2/3 (the remaining slots are never looked at).
RECURSIVE LightWalk(_, _, _, _)
LightWalk(pows, slots, i, tally) ==
  IF i > Len(slots) THEN FALSE
  ELSE IF slots[i] \in {"A", "N", "M", "Q"} THEN LightWalk(pows, slots, i + 1, tally)
  ELSE IF slots[i] = "X" THEN FALSE
  ELSE IF QuorumCode(tally + pows[i], Total(pows)) THEN TRUE
  ELSE LightWalk(pows, slots, i + 1, tally + pows[i])

VerifyLight(pows, bid, h, c) ==
  /\ Len(pows) = Len(c.slots)
  /\ c.h = h
  /\ IF Weak_PartSetNotCompared THEN c.bid.hash = bid.hash ELSE c.bid = bid
  /\ LightWalk(pows, c.slots, 1, 0)

\* VerifyCommit: every non-absent slot's signature is verified (nil votes too); the
\* address field is NOT compared (index based).
SigValid(s) == s \in {"C", "R", "N", "Q"}
ForBlockPower(pows, slots) ==
  SumSeq([i \in 1..Len(slots) |-> IF slots[i] \in {"C", "R"} THEN pows[i] ELSE 0])
VerifyFull(pows, bid, h, c) ==
  /\ Len(pows) = Len(c.slots)
  /\ c.h = h
  /\ IF Weak_PartSetNotCompared THEN c.bid.hash = bid.hash ELSE c.bid = bid
  /\ \A i \in 1..Len(c.slots) : c.slots[i] = "A" \/ SigValid(c.slots[i])
  /\ QuorumCode(ForBlockPower(pows, c.slots), Total(pows))

\* types.CommitToVoteSet + VoteSet.AddVote + HasTwoThirdsMajority (reconstructLastCommit):
\* every non-absent slot is added as a vote: address must be the validator's, signature
\* valid; afterwards a 2/3 majority is required.  FALSE = the node panics.
VoteSetClean(pows, c) ==
  /\ Len(pows) = Len(c.slots)        \* GetByIndex fails beyond the set / short commits lack quorum
  /\ \A i \in 1..Len(c.slots) : c.slots[i] \in {"A", "C", "N"}
  /\ QuorumCode(SumSeq([i \in 1..Len(c.slots) |-> IF c.slots[i] = "C" THEN pows[i] ELSE 0]), Total(pows))

\* The repaired reactor verifies the commit it is about to store as the seen commit
\* completely (proposed-fixes/C13-*.diff): all signatures and the address of every slot.
\* blockchain/commit.go VerifySeenCommit: VerifyCommit, then the address of EVERY non-absent slot
\* (nil votes too: CommitToVoteSet adds them as votes as well)
VerifySeen(pows, bid, h, c) ==
  /\ VerifyFull(pows, bid, h, c)
  /\ \A i \in 1..Len(c.slots) : c.slots[i] # "R" /\ (Weak_NilSlotAddressUnchecked \/ c.slots[i] # "Q")

\* what the property statement demands of the commit that admits block h with BlockID bid:
\* valid signatures of > 2/3 of the prescribed set over exactly that hash AND part-set header
Covers(pows, bid, h, c) ==
  /\ Len(pows) = Len(c.slots)
  /\ c.h = h
  /\ c.bid = bid
  /\ QuorumStmt(ForBlockPower(pows, c.slots), Total(pows))

\* ------------------------------------------------------------------ the canonical chain and the liars' menu
CanonId(h)  == "C" \o ToString(h)
CanonBID(h) == [hash |-> CanonId(h), psh |-> CanonId(h)]
\* the commit every honest node holds for height g: all validators precommitted the block,
\* except that at the heights in NilAt the last one precommitted nil
GenSlots(g) == [i \in 1..Len(ValsAt[g]) |-> IF g \in NilAt /\ i = Len(ValsAt[g]) THEN "N" ELSE "C"]
CanonCommit(g) == IF g = 0 THEN NoCommit ELSE [h |-> g, bid |-> CanonBID(g), slots |-> GenSlots(g)]
CanonBlock(h) == [h |-> h, id |-> CanonId(h), uid |-> CanonId(h), lc |-> CanonCommit(h - 1), valid |-> TRUE]

\* index of the slot at which the early-exit walk over a full commit returns
RECURSIVE QIdxFrom(_, _, _)
QIdxFrom(pows, i, tally) ==
  IF i > Len(pows) THEN Len(pows) + 1
  ELSE IF QuorumCode(tally + pows[i], Total(pows)) THEN i ELSE QIdxFrom(pows, i + 1, tally + pows[i])
QIdx(pows) == QIdxFrom(pows, 1, 0)

\* slot patterns a liar can assemble from the genuine precommits gen (it cannot forge a valid
\* signature: "C"/"R" appear only where a genuine commit signature exists, "N"/"Q" only where
\* a genuine nil signature exists; the nil voter is the last slot, behind the quorum)
SlotsOfKind(kind, pows, gen) ==
  LET n == Len(pows)  k == QIdx(pows) IN
  CASE kind = "quorumOnly" -> [i \in 1..n |-> IF i <= k THEN "C" ELSE "A"]
    [] kind = "noQuorum"   -> [i \in 1..n |-> IF i < k THEN "C" ELSE "A"]
    [] kind = "badEarly"   -> [i \in 1..n |-> IF i = 1 THEN "X" ELSE gen[i]]
    [] kind = "padBad"     -> [i \in 1..n |-> IF i <= k THEN "C" ELSE IF i = k + 1 THEN "X" ELSE "A"]
    [] kind = "padNil"     -> [i \in 1..n |-> IF i <= k THEN "C" ELSE IF i = k + 1 THEN "M" ELSE "A"]
    [] kind = "padAddr"    -> [i \in 1..n |-> IF i <= k THEN "C" ELSE IF i = k + 1 THEN (IF gen[i] = "N" THEN "Q" ELSE "R") ELSE "A"]
    [] kind = "addrEarly"  -> [i \in 1..n |-> IF i = 1 THEN "R" ELSE gen[i]]
    [] kind = "shortSet"   -> [i \in 1..(n - 1) |-> gen[i]]
    \* the genuine nil precommit(s) under another validator's address
    [] kind = "nilAddr"    -> [i \in 1..n |-> IF gen[i] = "N" THEN "Q" ELSE gen[i]]
    [] OTHER               -> gen

CommitKinds == {"quorumOnly", "noQuorum", "badEarly", "padBad", "padNil", "padAddr", "addrEarly", "shortSet", "nilAddr"}

\* the block a peer sends for a request of height h, by response kind:
\*   "H"          the canonical block
\*   "W"          WrongBlock: valid-looking, other txs, genuine LastCommit
\*   "WC"         wrong block whose LastCommit is a commit "for itself's predecessor W": all signatures invalid
\*   <commitkind> RightBlock{Forged,Padded}Commit: canonical content, LastCommit rebuilt
\*   "commitH"    canonical content, LastCommit claims another height
BlockOfKind(kind, h) ==
  LET nm == kind \o ToString(h) IN
  CASE kind = "H"  -> CanonBlock(h)
    [] kind = "W"  -> [h |-> h, id |-> nm, uid |-> nm, lc |-> CanonCommit(h - 1), valid |-> TRUE]
    \* LastCommit "for W(h-1)": the genuine signature bytes under another BlockID -- same
    \* header hash as C[h], no signature verifies
    [] kind = "WC" -> IF h = 1 THEN CanonBlock(h)
                      ELSE [h |-> h, id |-> CanonId(h), uid |-> nm,
                            lc |-> [h |-> h - 1, bid |-> [hash |-> "W" \o ToString(h - 1), psh |-> "W" \o ToString(h - 1)],
                                    \* (a nil precommit does not sign the BlockID: it stays valid)
                                    slots |-> [i \in 1..Len(ValsAt[h - 1]) |-> IF GenSlots(h - 1)[i] = "N" THEN "N" ELSE "X"]],
                            valid |-> TRUE]
    \* the height is part of the signed bytes but not of Commit.Hash(): same header hash,
    \* no signature verifies
    [] kind = "commitH" -> IF h = 1 THEN CanonBlock(h)
                           ELSE [h |-> h, id |-> CanonId(h), uid |-> nm,
                                 lc |-> [h |-> h, bid |-> CanonBID(h - 1),
                                         slots |-> [i \in 1..Len(ValsAt[h - 1]) |-> IF GenSlots(h - 1)[i] = "N" THEN "M" ELSE "X"]],
                                 valid |-> TRUE]
    [] kind \in CommitKinds ->
         \* (where the set leaves no room for the pattern the liar can only send the genuine commit)
         IF h = 1 \/ SlotsOfKind(kind, ValsAt[h - 1], GenSlots(h - 1)) = GenSlots(h - 1) THEN CanonBlock(h)
         \* (named by the slot pattern: two kinds that yield the same pattern yield the same bytes)
         ELSE LET sl == SlotsOfKind(kind, ValsAt[h - 1], GenSlots(h - 1))
                  sn == "S" \o Concat(sl) \o "@" \o ToString(h)
              IN [h |-> h, id |-> sn, uid |-> sn,
                  lc |-> [h |-> h - 1, bid |-> CanonBID(h - 1), slots |-> sl],
                  valid |-> TRUE]

\* ------------------------------------------------------------------ node state (sm.State as far as it matters)
\* st = [h, lastID]: LastBlockHeight / LastBlockID.  The validator set the node's own state
\* prescribes for height st.h + 1 is vals(st.h + 1); ValsOf is supplied by the user of the
\* operators (design spec: ValsAt; trace spec: the observed sets).
\* state/validation.go validateBlock, as far as peers can influence it
ValidateBlock(st, lastPows, b) ==
  /\ b.valid
  /\ b.h = st.h + 1
  /\ IF b.h = 1 THEN b.lc = NoCommit
     ELSE /\ VerifyFull(lastPows, st.lastID, b.h - 1, b.lc)
          \* validateBlock binds every LastCommit signature's address to the validator at its index
          \* (fix 7c92f67: MedianTime weighs the timestamps by the power found under the address)
          /\ \A i \in 1..Len(b.lc.slots) : b.lc.slots[i] \notin {"R", "Q"}

\* ------------------------------------------------------------------ pool (pool.go)
\* pool = [h, req, peers, maxH, np]
\*   req   : [pool.h .. pool.h+n-1 -> [peer, blk, from, prev]]   requesters: peer = the ONE owner (the peer
\*           currently asked, bpRequester.peerID); from = ghost, the peer that delivered blk; prev = the
\*           peer asked before the last reset (exists only in the weakened code)
\*   peers : [subset of Peers -> [base, height, to, np]]    to = didTimeout, np = bpPeer.numPending
\*   np    : BlockPool.numPending -- the code's own count of requesters that have no block yet
\*           (makeNextRequester +1, AddBlock -1, bpRequester.reset +1 iff a block is dropped);
\*           makeRequestersRoutine creates no requester while np >= maxPendingRequests
ReqEmpty == [peer |-> Nil, blk |-> NilBlk, from |-> Nil, prev |-> Nil]
\* bpRequester.reset (redo after removePeer, or the requestRetrySeconds timer): owner and block dropped
\* (after a reset the requester has NO owner until it picks again: it accepts a block from nobody)
ResetOf(r) == [ReqEmpty EXCEPT !.prev = IF Weak_AcceptsFromPreviousPeer \/ Weak_ResetKeepsOwner THEN r.peer ELSE Nil]
ReqHeights(pool) == DOMAIN pool.req
MaxHeightOf(peers) ==
  IF DOMAIN peers = {} THEN 0
  ELSE CHOOSE m \in {peers[p].height : p \in DOMAIN peers} \cup {0} :
         \A p \in DOMAIN peers : peers[p].height <= m
Restrict(f, S) == [x \in S |-> f[x]]

\* SetPeerRange.  A peer that lowers its reported height may have been the one that set
\* maxPeerHeight: the repaired code recomputes it (proposed-fixes/C13-stale-max-peer-height.diff);
\* the original only ever raised it (Weak_StaleMaxPeerHeight), and removePeer recomputes
\* only when the removed peer's CURRENT height equals the maximum -- so it stayed stale for good.
SetPeerRange(pool, p, base, height) ==
  LET known   == p \in DOMAIN pool.peers
      lowered == known /\ height < pool.peers[p].height
      peers2  == [q \in DOMAIN pool.peers \cup {p} |->
                    IF q = p THEN [base |-> base, height |-> height, to |-> IF known THEN pool.peers[p].to ELSE FALSE,
                                   np |-> IF known THEN pool.peers[p].np ELSE 0]
                    ELSE pool.peers[q]]
      m       == IF lowered /\ ~Weak_StaleMaxPeerHeight THEN MaxHeightOf(peers2) ELSE pool.maxH
  IN [pool EXCEPT !.peers = peers2, !.maxH = IF height > m THEN height ELSE m]

\* makeNextRequester
\* (makeRequestersRoutine: numPending >= maxPendingRequests -> sleep, no new requester)
CanMakeRequester(pool) == pool.h + Cardinality(ReqHeights(pool)) <= pool.maxH /\ pool.np < MaxPending
MakeRequester(pool) ==
  LET nh == pool.h + Cardinality(ReqHeights(pool)) IN
  [pool EXCEPT !.req = [x \in ReqHeights(pool) \cup {nh} |-> IF x = nh THEN ReqEmpty ELSE pool.req[x]],
               !.np = @ + 1]

\* pickIncrAvailablePeer + requestRoutine
CanPick(pool, h, p) ==
  /\ h \in ReqHeights(pool)
  /\ pool.req[h].peer = Nil
  /\ p \in DOMAIN pool.peers
  /\ ~pool.peers[p].to
  /\ pool.peers[p].np < PerPeer
  /\ pool.peers[p].base <= h /\ h <= pool.peers[p].height
Pick(pool, h, p) == [pool EXCEPT !.req[h].peer = p, !.peers[p].np = @ + 1,     \* bpPeer.incrPending
                                 !.req[h].prev = IF Weak_AcceptsFromPreviousPeer THEN @ ELSE Nil]

\* AddBlock: [pool, err] ; err = TRUE when sendError(peer) is called
AddBlock(pool, p, b) ==
  IF b.h \notin ReqHeights(pool)
  THEN [pool |-> pool, err |-> Abs(pool.h - b.h) > 100, set |-> FALSE]
  \* bpRequester.setBlock: only from the peer the requester is asking right now
  ELSE IF pool.req[b.h].blk = NilBlk
          /\ (pool.req[b.h].peer = p \/ (Weak_AcceptsFromPreviousPeer /\ p # Nil /\ pool.req[b.h].prev = p)
                                     \/ (Weak_ResetKeepsOwner /\ p # Nil /\ pool.req[b.h].peer = Nil /\ pool.req[b.h].prev = p))
       THEN [pool |-> [pool EXCEPT !.req[b.h].blk = b, !.req[b.h].from = p, !.np = @ - 1,
                                   !.peers = IF p \in DOMAIN pool.peers      \* bpPeer.decrPending
                                             THEN [pool.peers EXCEPT ![p].np = @ - 1] ELSE pool.peers],
             err |-> FALSE, set |-> TRUE]
       ELSE [pool |-> pool, err |-> TRUE, set |-> FALSE]

\* removePeer (+ the requesters' redo -> reset, which the requester goroutines perform next)
PoolRemove(pool, p) ==
  LET peers2 == Restrict(pool.peers, DOMAIN pool.peers \ {p})
      mine   == {x \in ReqHeights(pool) : pool.req[x].peer = p}
      \* bpRequester.reset: a requester that drops a block is pending again; one without a block still is
      again  == IF Weak_RedoAlwaysCountsPending THEN mine ELSE {x \in mine : pool.req[x].blk # NilBlk}
  IN
  [pool EXCEPT
     !.np    = @ + Cardinality(again),
     !.req   = [x \in ReqHeights(pool) |-> IF pool.req[x].peer = p THEN ResetOf(pool.req[x]) ELSE pool.req[x]],
     !.peers = peers2,
     !.maxH  = IF p \in DOMAIN pool.peers /\ pool.peers[p].height = pool.maxH
               THEN MaxHeightOf(peers2) ELSE pool.maxH]

\* requestRoutine, `case <-to.C` (requestRetrySeconds = 30 s after the request was sent): reset and pick
\* again.  The old peer is not told and its bpPeer.numPending is not given back; its answer may still come.
CanRetry(pool, h) == h \in ReqHeights(pool) /\ pool.req[h].peer # Nil
Retry(pool, h) ==
  [pool EXCEPT !.req[h] = ResetOf(pool.req[h]),
               !.np = IF pool.req[h].blk # NilBlk \/ Weak_RedoAlwaysCountsPending THEN @ + 1 ELSE @]

\* PopRequest
PopRequest(pool) ==
  [pool EXCEPT !.req = Restrict(pool.req, ReqHeights(pool) \ {pool.h}), !.h = pool.h + 1]

\* IsCaughtUp (pool.height > 0 always holds here)
IsCaughtUp(pool) ==
  /\ DOMAIN pool.peers # {}
  /\ (pool.maxH = 0 \/ pool.h >= pool.maxH - 1)

\* the counters the code keeps are what they claim to count
Blockless(pool) == {x \in ReqHeights(pool) : pool.req[x].blk = NilBlk}
PendingExact(pool) == pool.np = Cardinality(Blockless(pool))
\* (a requester that gave up on a peer -- Retry -- leaves the peer's counter where it was: >=)
PeerPendingExact(pool) ==
  \A p \in DOMAIN pool.peers :
     pool.peers[p].np >= Cardinality({x \in Blockless(pool) : pool.req[x].peer = p})
\* a block sits in a requester only if the peer the requester is asking delivered it
BlockFromAsked(pool) == \A x \in ReqHeights(pool) : pool.req[x].blk # NilBlk => pool.req[x].from = pool.req[x].peer

\* PeekTwoBlocks
HasTwo(pool) ==
  /\ pool.h \in ReqHeights(pool) /\ pool.req[pool.h].blk # NilBlk
  /\ (pool.h + 1) \in ReqHeights(pool) /\ pool.req[pool.h + 1].blk # NilBlk
First(pool)  == pool.req[pool.h].blk
Second(pool) == pool.req[pool.h + 1].blk

\* the decision of one didProcessCh iteration of poolRoutine on (first, second):
\* pows = validators of first.h per the node's own state, lastPows = state.LastValidators
SyncAccepts(st, pows, lastPows, first, second) ==
  /\ Weak_NoCommitVerify \/ VerifyLight(pows, BID(first), first.h, second.lc)
  /\ Weak_SeenCommitUnchecked \/ Weak_NoCommitVerify \/ VerifySeen(pows, BID(first), first.h, second.lc)
  /\ Weak_NoBlockValidation \/ ValidateBlock(st, lastPows, first)

\* peers the failure path stops: RedoRequest(first.Height), RedoRequest(second.Height)
FailPeers(pool) == {pool.req[pool.h].peer, pool.req[pool.h + 1].peer} \ {Nil}
\* the peers that SENT the two blocks
PairSenders(pool) == {pool.req[pool.h].from, pool.req[pool.h + 1].from} \ {Nil}
RECURSIVE PoolRemoveAll(_, _)
PoolRemoveAll(pool, S) ==
  IF S = {} THEN pool ELSE LET p == CHOOSE x \in S : TRUE IN PoolRemoveAll(PoolRemove(pool, p), S \ {p})

=============================================================================
