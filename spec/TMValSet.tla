------------------------------ MODULE TMValSet ------------------------------
(* Validator sets of types/validator_set.go and types/validator.go (v0.34.x):
   update batches (UpdateWithChangeSet), proposer rotation (IncrementProposerPriority),
   the helpers they are made of, and the properties C08 states about them.

   This is an operator-only module (no VARIABLES).  It is used by
     mc/C08_update.tla    every (pre-set, batch) case as an initial state
     mc/C08_rotate.tla    rotation of fixed sets (Fair), composition of increments
     mc/C08_hist.tla      a ValidatorSet object under Update / Increment / Copy / GetProposer
     TMValStore.tla       the state store (Save / LoadValidators / PruneStates)
     trace/TMValSetTrace.tla   TLC judging behaviour OBSERVED on the real code

   Two formulations live side by side:
     * the CODE TRANSCRIPTION (sequences, sorting, merging, error order, the stale
       Proposer pointer) -- one operator per Go function, named after it;
     * the REFERENCE (section "map-based reference"): what the batch means on a
       function  address -> power/priority, with the error conditions as one
       conjunction.  "yields the same set regardless of the order of the batch" is
       immediate for the reference because it never looks at the order.
   TLC checks on every enumerated case that the two agree (MatchesRef); trace validation
   checks the OBSERVED result of the real code against the reference (level 2) and
   against the transcription including its incidental details (level 1).

   Values.  An address is a small positive integer; integer order = byte order of the
   real addresses (the harness draws keys from a pool sorted by address).
     validator  [a |-> address, p |-> VotingPower, pr |-> ProposerPriority]
     change     [a |-> address, p |-> new power]      (p = 0 : removal)
     set        [vals  |-> sequence of validators     (ValidatorSet.Validators, in slice order),
                 prop  |-> validator or NoVal         (ValidatorSet.Proposer, by VALUE),
                 alias |-> BOOLEAN]                   (Proposer points INTO Validators)
   `alias` is needed to be faithful about ValidatorSet.Proposer after an update: it is a
   pointer; IncrementProposerPriority makes it point at an element of Validators, Copy()
   and the protobuf round trip make it point elsewhere.  updateWithChangeSet never
   assigns it, so afterwards it shows the centred priority of the proposer only if it
   still points at a live element (see ProposerAfterUpdate).                          *)
EXTENDS Integers, Sequences, FiniteSets, TLC

CONSTANTS
  MaxTotal,                   \* MaxTotalVotingPower = MaxInt64 / 8
  IntMax,                     \* math.MaxInt64 (clipping bound of safeAddClip/safeSubClip)
  Weak_ApplyBeforeVerify,     \* updates applied before the overflow error is returned
  Weak_IgnoreMissingRemoval,  \* removal of a non-member silently dropped
  Weak_NoResort,              \* no sort by (power desc, address asc) after an update
  Weak_NoPenalty,             \* new validators enter with priority 0 instead of -1.125*total
  Weak_PenaltyMulOverflow,    \* the penalty computed as -(tvp*9/8) in wrapping machine integers
  Weak_NoRescale,             \* RescalePriorities never divides
  Weak_NoCentre,              \* shiftByAvgProposerPriority does nothing
  Weak_TieHighAddr,           \* priority ties go to the HIGHER address
  Weak_FloorDiv,              \* rescaling rounds toward -infinity instead of toward zero
  Weak_RoundSkipSingleIncrement \* a node that skips k rounds rotates with ONE IncrementProposerPriority(k)

IntMin == -IntMax - 1
NoVal  == [a |-> 0, p |-> 0, pr |-> 0]
PriorityWindowSizeFactor == 2

\* ------------------------------------------------------------------ arithmetic
\* Go's  a / b  on int64 truncates toward zero; TLA+ \div rounds toward -infinity.
TruncDiv(a, b) == IF a >= 0 THEN a \div b ELSE -((-a) \div b)          \* b > 0
RescaleDiv(a, b) == IF Weak_FloorDiv THEN a \div b ELSE TruncDiv(a, b)
\* big.Int.Div is Euclidean division; for a positive divisor that is \div.
EuclidDiv(a, b) == a \div b                                            \* b > 0

\* safeAddClip / safeSubClip (validator_set.go)
SafeAddClip(a, b) ==
  IF b > 0 /\ a > IntMax - b THEN IntMax
  ELSE IF b < 0 /\ a < IntMin - b THEN IntMin
  ELSE a + b
SafeSubClip(a, b) ==
  IF b > 0 /\ a < IntMin + b THEN IntMin
  ELSE IF b < 0 /\ a > IntMax + b THEN IntMax
  ELSE a - b

RECURSIVE SumSeq(_)
SumSeq(s) == IF s = << >> THEN 0 ELSE s[1] + SumSeq(Tail(s))
MaxOf(S) == CHOOSE x \in S : \A y \in S : y <= x
MinOf(S) == CHOOSE x \in S : \A y \in S : x <= y
Abs(x) == IF x < 0 THEN -x ELSE x

\* ------------------------------------------------------------------ sequences of validators
Powers(vals) == [i \in DOMAIN vals |-> vals[i].p]
Prios(vals)  == [i \in DOMAIN vals |-> vals[i].pr]
Addrs(vals)  == {vals[i].a : i \in DOMAIN vals}
\* updateTotalVotingPower (the clip to MaxInt64 and the panic above MaxTotal are out of
\* reach once verifyUpdates has passed; TotalOK states that)
TotalPower(vals) == SumSeq(Powers(vals))
HasAddress(vals, a) == \E i \in DOMAIN vals : vals[i].a = a
GetByAddress(vals, a) == vals[CHOOSE i \in DOMAIN vals : vals[i].a = a]

\* sort.Sort(ValidatorsByAddress(..)): Go's sort is an insertion sort below 12 elements,
\* i.e. stable; ties (duplicate addresses in a batch) keep the batch order.
SortByAddress(s) ==
  LET n == Len(s)
      rank(i) == 1 + Cardinality({j \in 1..n : s[j].a < s[i].a \/ (s[j].a = s[i].a /\ j < i)})
  IN [k \in 1..n |-> s[CHOOSE i \in 1..n : rank(i) = k]]

\* ValidatorsByVotingPower.Less: power descending, then address ascending
PowerLess(x, y) == x.p > y.p \/ (x.p = y.p /\ x.a < y.a)
SortByVotingPower(s) ==
  LET n == Len(s)
      rank(i) == 1 + Cardinality({j \in 1..n : PowerLess(s[j], s[i]) \/ (~PowerLess(s[i], s[j]) /\ j < i)})
  IN [k \in 1..n |-> s[CHOOSE i \in 1..n : rank(i) = k]]

SortInts(s) ==
  LET n == Len(s)
      rank(i) == 1 + Cardinality({j \in 1..n : s[j] < s[i] \/ (s[j] = s[i] /\ j < i)})
  IN [k \in 1..n |-> s[CHOOSE i \in 1..n : rank(i) = k]]

\* ------------------------------------------------------------------ priorities
\* Validator.CompareProposerPriority: higher priority wins, ties go to the lower address
Beats(x, y) == x.pr > y.pr \/ (x.pr = y.pr /\ IF Weak_TieHighAddr THEN x.a > y.a ELSE x.a < y.a)
\* getValWithMostPriority (index into vals; addresses are unique)
MostPriorityIdx(vals) == CHOOSE i \in DOMAIN vals : \A j \in DOMAIN vals : j = i \/ Beats(vals[i], vals[j])

\* computeMaxMinPriorityDiff
MaxMinPriorityDiff(vals) ==
  LET ps == {vals[i].pr : i \in DOMAIN vals} IN Abs(MaxOf(ps) - MinOf(ps))

\* RescalePriorities(diffMax)
RescalePriorities(vals, diffMax) ==
  IF diffMax <= 0 THEN vals
  ELSE LET diff  == MaxMinPriorityDiff(vals)
           ratio == (diff + diffMax - 1) \div diffMax
       IN IF diff > diffMax /\ ~Weak_NoRescale
          THEN [i \in DOMAIN vals |-> [vals[i] EXCEPT !.pr = RescaleDiv(@, ratio)]]
          ELSE vals

\* computeAvgProposerPriority: big.Int sum, Euclidean division by n
AvgProposerPriority(vals) == EuclidDiv(SumSeq(Prios(vals)), Len(vals))

\* shiftByAvgProposerPriority
ShiftByAvg(vals) ==
  IF Weak_NoCentre THEN vals
  ELSE LET avg == AvgProposerPriority(vals) IN
       [i \in DOMAIN vals |-> [vals[i] EXCEPT !.pr = SafeSubClip(@, avg)]]

\* incrementProposerPriority (one round): everybody gains its power, the one with the
\* most priority pays the total.  Returns the new validators and the proposer's index.
IncrementOnce(vals) ==
  LET added == [i \in DOMAIN vals |-> [vals[i] EXCEPT !.pr = SafeAddClip(@, vals[i].p)]]
      m     == MostPriorityIdx(added)
  IN [vals |-> [added EXCEPT ![m].pr = SafeSubClip(@, TotalPower(vals))], idx |-> m]

RECURSIVE IncrementTimes(_, _, _)
IncrementTimes(vals, idx, times) ==
  IF times = 0 THEN [vals |-> vals, idx |-> idx]
  ELSE LET r == IncrementOnce(vals) IN IncrementTimes(r.vals, r.idx, times - 1)

\* IncrementProposerPriority(times): rescale and centre ONCE, then `times` rounds.
\* Precondition (else the code panics): non-empty set, times > 0.
IncrementPanics(set, times) == Len(set.vals) = 0 \/ times <= 0
IncrementProposerPriority(set, times) ==
  LET diffMax == PriorityWindowSizeFactor * TotalPower(set.vals)
      v0 == ShiftByAvg(RescalePriorities(set.vals, diffMax))
      r  == IncrementTimes(v0, 0, times)
  IN [vals |-> r.vals, prop |-> r.vals[r.idx], alias |-> TRUE]

\* the sequence of proposers of `n` consecutive IncrementProposerPriority(1) calls
RECURSIVE ProposerSeq(_, _)
ProposerSeq(set, n) ==
  IF n = 0 THEN << >>
  ELSE LET s1 == IncrementProposerPriority(set, 1) IN <<s1.prop.a>> \o ProposerSeq(s1, n - 1)

\* `n` consecutive IncrementProposerPriority(1) calls (what updateState does, one per block)
RECURSIVE IncrementEach(_, _)
IncrementEach(set, n) == IF n = 0 THEN set ELSE IncrementEach(IncrementProposerPriority(set, 1), n - 1)

\* findProposer / GetProposer (caches the result in vals.Proposer)
FindProposerIdx(vals) == MostPriorityIdx(vals)
GetProposer(set) ==
  IF Len(set.vals) = 0 THEN [set |-> set, prop |-> NoVal]
  ELSE IF set.prop # NoVal THEN [set |-> set, prop |-> set.prop]
  ELSE LET p == set.vals[FindProposerIdx(set.vals)] IN
       [set |-> [set EXCEPT !.prop = p, !.alias = TRUE], prop |-> p]

\* ValidatorSet.Copy: validators deep-copied, Proposer pointer shared with the original
CopySet(set) == [set EXCEPT !.alias = FALSE]
\* ToProto / ValidatorSetFromProto round trip (state store): values only
ProtoRoundTrip(set) == [set EXCEPT !.alias = FALSE]

\* consensus/state.go enterNewRound(height, round), round > cs.Round: the validators the node
\* uses from then on.  Every node must elect the same proposer for (height, round) whether it
\* walked the rounds one by one or jumped: one IncrementProposerPriority(1) per round.
\* (The code as found before the repair made ONE call with the round difference.)
RoundSkipRotate(set, k) ==
  IF Weak_RoundSkipSingleIncrement THEN IncrementProposerPriority(CopySet(set), k)
  ELSE IncrementEach(CopySet(set), k)

\* ------------------------------------------------------------------ update: code transcription
\* processChanges: sort by address, scan; first error wins
ProcessChanges(changes) ==
  LET c == SortByAddress(changes)
      errAt(i) == IF i > 1 /\ c[i].a = c[i - 1].a THEN "duplicate"
                  ELSE IF c[i].p < 0 THEN "negative"
                  ELSE IF c[i].p > MaxTotal THEN "toobig"
                  ELSE "none"
      bad == {i \in DOMAIN c : errAt(i) # "none"}
  IN IF bad # {} THEN [err |-> errAt(MinOf(bad)), updates |-> << >>, removals |-> << >>]
     ELSE [err |-> "none",
           updates  |-> SelectSeq(c, LAMBDA x : x.p > 0),
           removals |-> SelectSeq(c, LAMBDA x : x.p = 0)]

\* numNewValidators
NumNewValidators(updates, vals) == Cardinality({i \in DOMAIN updates : ~HasAddress(vals, updates[i].a)})

\* verifyRemovals: every removed address must be a member; returns the removed power
VerifyRemovals(deletes, vals) ==
  LET missing == {i \in DOMAIN deletes : ~HasAddress(vals, deletes[i].a)}
      found   == SelectSeq(deletes, LAMBDA d : HasAddress(vals, d.a))
  IN IF missing # {} /\ ~Weak_IgnoreMissingRemoval
     THEN [err |-> "notfound", removed |-> 0, deletes |-> deletes]
     ELSE [err |-> "none", removed |-> SumSeq([i \in DOMAIN found |-> GetByAddress(vals, found[i].a).p]),
           deletes |-> found]

\* verifyUpdates: deltas sorted ascending, running total checked against MaxTotal;
\* returns the total after the updates but BEFORE the removals
UpdateDelta(u, vals) == IF HasAddress(vals, u.a) THEN u.p - GetByAddress(vals, u.a).p ELSE u.p
VerifyUpdates(updates, vals, removedPower) ==
  LET ds    == SortInts([i \in DOMAIN updates |-> UpdateDelta(updates[i], vals)])
      start == TotalPower(vals) - removedPower
      run(k) == start + SumSeq(SubSeq(ds, 1, k))
  IN IF \E k \in DOMAIN ds : run(k) > MaxTotal
     THEN [err |-> "overflow", tvp |-> 0]
     ELSE [err |-> "none", tvp |-> run(Len(ds)) + removedPower]

\* computeNewPriorities: a member keeps its priority; a new validator gets
\* -(tvp + tvp>>3), tvp = total after updates before removals
\* two's-complement wrap of a product into [IntMin, IntMax] (IntMax stands in for MaxInt64)
WrapInt(x) == ((x - IntMin) % (2 * (IntMax + 1))) + IntMin
NewValidatorPriority(tvp) ==
  IF Weak_NoPenalty THEN 0
  ELSE IF Weak_PenaltyMulOverflow THEN -TruncDiv(WrapInt(tvp * 9), 8)   \* tvp may reach 2*MaxTotal > IntMax/9
  ELSE -(tvp + (tvp \div 8))
ComputeNewPriorities(updates, vals, tvp) ==
  [i \in DOMAIN updates |->
     [a |-> updates[i].a, p |-> updates[i].p,
      pr |-> IF HasAddress(vals, updates[i].a) THEN GetByAddress(vals, updates[i].a).pr
             ELSE NewValidatorPriority(tvp)]]

\* applyUpdates: sort the members by address, merge with the (address-sorted) updates
RECURSIVE MergeByAddress(_, _)
MergeByAddress(existing, updates) ==
  IF existing = << >> THEN updates
  ELSE IF updates = << >> THEN existing
  ELSE IF existing[1].a < updates[1].a
       THEN <<existing[1]>> \o MergeByAddress(Tail(existing), updates)
       ELSE <<updates[1]>> \o MergeByAddress(IF existing[1].a = updates[1].a THEN Tail(existing) ELSE existing,
                                             Tail(updates))
ApplyUpdates(vals, updates) == MergeByAddress(SortByAddress(vals), updates)

\* applyRemovals (both lists sorted by address, every delete present)
RECURSIVE ApplyRemovals(_, _)
ApplyRemovals(existing, deletes) ==
  IF deletes = << >> \/ existing = << >> THEN existing
  ELSE IF existing[1].a = deletes[1].a THEN ApplyRemovals(Tail(existing), Tail(deletes))
  ELSE <<existing[1]>> \o ApplyRemovals(Tail(existing), deletes)

\* ValidatorSet.Proposer after updateWithChangeSet: the field is not assigned.  If it
\* aliases a member that is neither updated (replaced by the update's object) nor removed,
\* it shows that member's new priority; otherwise it keeps the old values.
ProposerAfterUpdate(set, newvals, touched) ==
  IF set.alias /\ set.prop # NoVal /\ set.prop.a \notin touched /\ HasAddress(newvals, set.prop.a)
  THEN [prop |-> GetByAddress(newvals, set.prop.a), alias |-> TRUE]
  ELSE [prop |-> set.prop, alias |-> FALSE]

Failed(err, set) == [err |-> err, set |-> set]

\* updateWithChangeSet(changes, allowDeletes)
UpdateWithChangeSetX(set, changes, allowDeletes) ==
  IF Len(changes) = 0 THEN [err |-> "none", set |-> set]
  ELSE
  LET pc == ProcessChanges(changes) IN
  IF pc.err # "none" THEN Failed(pc.err, set)
  ELSE IF ~allowDeletes /\ Len(pc.removals) # 0 THEN Failed("nodeletes", set)
  ELSE IF NumNewValidators(pc.updates, set.vals) = 0 /\ Len(set.vals) = Len(pc.removals) THEN Failed("empty", set)
  ELSE
  LET vr == VerifyRemovals(pc.removals, set.vals) IN
  IF vr.err # "none" THEN Failed(vr.err, set)
  ELSE
  LET vu == VerifyUpdates(pc.updates, set.vals, vr.removed) IN
  IF vu.err # "none" THEN
     IF Weak_ApplyBeforeVerify
     THEN \* regression: the updates are merged in before the error is looked at
          Failed(vu.err, [set EXCEPT !.vals = ApplyUpdates(set.vals, ComputeNewPriorities(pc.updates, set.vals, vu.tvp))])
     ELSE Failed(vu.err, set)
  ELSE
  LET ups     == ComputeNewPriorities(pc.updates, set.vals, vu.tvp)
      merged  == ApplyUpdates(set.vals, ups)
      kept    == ApplyRemovals(merged, vr.deletes)
      total   == TotalPower(kept)
      centred == ShiftByAvg(RescalePriorities(kept, PriorityWindowSizeFactor * total))
      final   == IF Weak_NoResort THEN centred ELSE SortByVotingPower(centred)
      touched == {changes[i].a : i \in DOMAIN changes}
      pa      == ProposerAfterUpdate(set, final, touched)
  IN [err |-> "none", set |-> [vals |-> final, prop |-> pa.prop, alias |-> pa.alias]]

UpdateWithChangeSet(set, changes) == UpdateWithChangeSetX(set, changes, TRUE)

\* NewValidatorSet(valz): update of the empty set without deletes, then one increment.
\* (err # "none" is a panic in the code.)
EmptySet == [vals |-> << >>, prop |-> NoVal, alias |-> FALSE]
NewValidatorSet(valz) ==
  LET r == UpdateWithChangeSetX(EmptySet, valz, FALSE) IN
  IF r.err # "none" THEN r
  ELSE IF Len(valz) > 0 THEN [err |-> "none", set |-> IncrementProposerPriority(r.set, 1)]
  ELSE r

\* ------------------------------------------------------------------ map-based reference
\* What a batch means, independent of its order: a set of changes over a function
\* address -> (power, priority).
ChangeSet(changes) == {changes[i] : i \in DOMAIN changes}
RefAccepts(vals, changes) ==
  LET ch      == ChangeSet(changes)
      members == Addrs(vals)
      removed == {c.a : c \in {x \in ch : x.p = 0}}
      added   == {c.a : c \in {x \in ch : x.p > 0 /\ x.a \notin members}}
      newpow(a) == IF \E c \in ch : c.a = a /\ c.p > 0 THEN (CHOOSE c \in ch : c.a = a).p
                   ELSE GetByAddress(vals, a).p
      result  == (members \ removed) \cup added
      RECURSIVE Sum(_)
      Sum(S) == IF S = {} THEN 0 ELSE LET x == CHOOSE y \in S : TRUE IN newpow(x) + Sum(S \ {x})
  IN /\ \A i, j \in DOMAIN changes : i # j => changes[i].a # changes[j].a    \* no duplicate address
     /\ \A c \in ch : 0 <= c.p /\ c.p <= MaxTotal
     /\ removed \subseteq members                                             \* only members are removed
     /\ result # {}                                                           \* never empty
     /\ Sum(result) <= MaxTotal                                               \* total within the limit

\* the result of an accepted, non-empty batch
RefResult(vals, changes) ==
  LET ch      == ChangeSet(changes)
      members == Addrs(vals)
      removed == {c.a : c \in {x \in ch : x.p = 0}}
      changed(a) == \E c \in ch : c.a = a /\ c.p > 0
      added   == {c.a : c \in {x \in ch : x.p > 0 /\ x.a \notin members}}
      newpow(a) == IF changed(a) THEN (CHOOSE c \in ch : c.a = a).p ELSE GetByAddress(vals, a).p
      RECURSIVE Sum(_)
      Sum(S) == IF S = {} THEN 0 ELSE LET x == CHOOSE y \in S : TRUE IN newpow(x) + Sum(S \ {x})
      tvp     == Sum(members \cup added)            \* updates applied, removals not yet
      result  == (members \ removed) \cup added
      total   == Sum(result)
      prio0(a) == IF a \in members THEN GetByAddress(vals, a).pr ELSE -(tvp + (tvp \div 8))
      hi      == MaxOf({prio0(a) : a \in result})
      lo      == MinOf({prio0(a) : a \in result})
      window  == 2 * total
      ratio   == (hi - lo + window - 1) \div window
      prio1(a) == IF hi - lo > window THEN TruncDiv(prio0(a), ratio) ELSE prio0(a)
      RECURSIVE SumP(_)
      SumP(S) == IF S = {} THEN 0 ELSE LET x == CHOOSE y \in S : TRUE IN prio1(x) + SumP(S \ {x})
      avg     == SumP(result) \div Cardinality(result)
      prio2(a) == prio1(a) - avg
      \* canonical order: power descending, address ascending
      before(a, b) == newpow(a) > newpow(b) \/ (newpow(a) = newpow(b) /\ a < b)
      pos(a)  == 1 + Cardinality({b \in result : before(b, a)})
  IN [k \in 1..Cardinality(result) |->
        LET a == CHOOSE x \in result : pos(x) = k IN [a |-> a, p |-> newpow(a), pr |-> prio2(a)]]

\* reference outcome: [ok, vals]
RefUpdate(vals, changes) ==
  IF Len(changes) = 0 THEN [ok |-> TRUE, vals |-> vals]
  ELSE IF RefAccepts(vals, changes) THEN [ok |-> TRUE, vals |-> RefResult(vals, changes)]
  ELSE [ok |-> FALSE, vals |-> vals]

\* reference rotation on a function address -> priority: one round
RefRound(vals) ==
  LET T == TotalPower(vals)
      q(i) == vals[i].pr + vals[i].p
      win == CHOOSE i \in DOMAIN vals : \A j \in DOMAIN vals :
                j = i \/ q(i) > q(j) \/ (q(i) = q(j) /\ vals[i].a < vals[j].a)
  IN [vals |-> [i \in DOMAIN vals |-> [vals[i] EXCEPT !.pr = IF i = win THEN q(i) - T ELSE q(i)]],
      prop |-> vals[win].a]

\* reference for IncrementProposerPriority(k): normalise (rescale, centre) once, k rounds
RECURSIVE RefRounds(_, _, _)
RefRounds(vals, prop, k) ==
  IF k = 0 THEN [vals |-> vals, prop |-> prop]
  ELSE LET r == RefRound(vals) IN RefRounds(r.vals, r.prop, k - 1)
RefNormalise(vals) ==
  LET T  == TotalPower(vals)
      hi == MaxOf({vals[i].pr : i \in DOMAIN vals})
      lo == MinOf({vals[i].pr : i \in DOMAIN vals})
      ratio == (hi - lo + 2 * T - 1) \div (2 * T)
      sc == [i \in DOMAIN vals |-> IF hi - lo > 2 * T THEN TruncDiv(vals[i].pr, ratio) ELSE vals[i].pr]
      avg == SumSeq(sc) \div Len(vals)
  IN [i \in DOMAIN vals |-> [vals[i] EXCEPT !.pr = sc[i] - avg]]
RefIncrement(vals, k) == RefRounds(RefNormalise(vals), 0, k)
\* reference for n consecutive IncrementProposerPriority(1) calls: [vals, props]
RECURSIVE RefEach(_, _)
RefEach(vals, n) ==
  IF n = 0 THEN [vals |-> vals, props |-> << >>]
  ELSE LET r == RefIncrement(vals, 1)
           rest == RefEach(r.vals, n - 1)
       IN [vals |-> rest.vals, props |-> <<r.prop>> \o rest.props]

\* ------------------------------------------------------------------ properties (on values)
\* WellFormed: unique addresses, no zero (or negative) power, canonical order,
\* 0 < total <= MaxTotal, never empty
CanonicalOrder(vals) == \A i \in 1..(Len(vals) - 1) : PowerLess(vals[i], vals[i + 1])
WellFormed(vals) ==
  /\ Len(vals) > 0
  /\ \A i, j \in DOMAIN vals : i # j => vals[i].a # vals[j].a
  /\ \A i \in DOMAIN vals : vals[i].p > 0
  /\ CanonicalOrder(vals)
  /\ TotalPower(vals) > 0 /\ TotalPower(vals) <= MaxTotal
WellFormedWhy(vals) ==
  IF Len(vals) = 0 THEN "empty"
  ELSE IF \E i, j \in DOMAIN vals : i # j /\ vals[i].a = vals[j].a THEN "duplicate_address"
  ELSE IF \E i \in DOMAIN vals : vals[i].p <= 0 THEN "zero_power_member"
  ELSE IF ~CanonicalOrder(vals) THEN "not_canonical_order"
  ELSE IF TotalPower(vals) > MaxTotal THEN "total_above_max"
  ELSE "ok"

\* PrioBounded, right after an update (rescaled and centred): the window is at most
\* 2*total wide and the priorities sum to 0 <= sum < n (avg is a floor)
Centred(vals) == LET s == SumSeq(Prios(vals)) IN 0 <= s /\ s < Len(vals)
PrioBounded(vals) ==
  /\ MaxMinPriorityDiff(vals) <= PriorityWindowSizeFactor * TotalPower(vals)
  /\ Centred(vals)
\* ... and while rotating: rounds keep the sum, and the window stays below the loose
\* bound  2*total + the largest power  ... (a round lifts a non-proposer by at most its power)
\* "priorities never overflow": no priority ever sits on a clipping bound
NoClip(vals) == \A i \in DOMAIN vals : vals[i].pr > IntMin /\ vals[i].pr < IntMax

\* the observable content of a set (what LookupExact compares): validators in order,
\* proposer by value
SetView(set) == [vals |-> set.vals, prop |-> set.prop]
\* ProposerDeterministic: the set after skipping k rounds is the set after walking k rounds
ProposerDeterministicAt(set, k) ==
  SetView(RoundSkipRotate(set, k)) = SetView(IncrementEach(CopySet(set), k))


\* Fair: in `props` (addresses of consecutive proposers of a FIXED set `vals`, first
\* increment taken from the freshly created set) every window of total-power many
\* consecutive rounds contains validator v exactly power(v) times
CountIn(props, from, to, a) == Cardinality({k \in from..to : props[k] = a})
FairWindows(vals, props) ==
  LET T == TotalPower(vals) IN
  \A s \in 1..(Len(props) - T + 1) : \A i \in DOMAIN vals :
     CountIn(props, s, s + T - 1, vals[i].a) = vals[i].p
\* proportionality for ANY start (set fresh from an update): over w consecutive rounds
\* without a rescale  T*count(v) = w*power(v) - (change of v's priority), hence
\* |T*count - w*power| <= window of priorities before + after
ProportionalPrefix(vals, props, bound) ==
  LET T == TotalPower(vals) IN
  \A w \in 1..Len(props) : \A i \in DOMAIN vals :
     Abs(T * CountIn(props, 1, w, vals[i].a) - w * vals[i].p) <= bound

\* all orders of a batch
Perms(s) == {p \in [DOMAIN s -> DOMAIN s] : \A i, j \in DOMAIN s : i # j => p[i] # p[j]}
Permute(s, p) == [i \in DOMAIN s |-> s[p[i]]]

\* the C08 update properties for one (set, batch)
UpdateAtomicAt(set, changes) ==
  \A p \in Perms(changes) :
     LET r == UpdateWithChangeSet(set, Permute(changes, p)) IN r.err # "none" => r.set = set
OrderIndependentAt(set, changes) ==
  \A p \in Perms(changes) :
     LET r0 == UpdateWithChangeSet(set, changes)
         r  == UpdateWithChangeSet(set, Permute(changes, p))
     IN (r.err = "none") = (r0.err = "none") /\ r.set = r0.set
WellFormedAt(set, changes) ==
  LET r == UpdateWithChangeSet(set, changes) IN
  r.err = "none" /\ Len(changes) > 0 => WellFormed(r.set.vals) /\ PrioBounded(r.set.vals) /\ NoClip(r.set.vals)
MatchesRefAt(set, changes) ==
  LET r   == UpdateWithChangeSet(set, changes)
      ref == RefUpdate(set.vals, changes)
  IN (r.err = "none") = ref.ok /\ r.set.vals = ref.vals

=============================================================================
