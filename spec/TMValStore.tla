------------------------------ MODULE TMValStore ------------------------------
(* Historical validator sets in the state store: state/store.go (save,
   saveValidatorsInfo, LoadValidators, lastStoredHeightFor, PruneStates, Bootstrap) and
   the part of state/execution.go:updateState / state/state.go:MakeGenesisState that
   decides which set is in force at which height.

   Operator-only module; the state machine is mc/C08_store.tla, the trace spec is
   trace/TMValSetTrace.tla.

   db    : function  height -> [lhc  |-> ValidatorsInfo.LastHeightChanged,
                                set  |-> stored set (SetView) or NoSet]
           (the "validatorsKey:<h>" key space; absent key = height not in DOMAIN)
   state : [h    |-> LastBlockHeight,  ih |-> InitialHeight,
            vals |-> Validators (in force at h+1),  nvals |-> NextValidators (h+2),
            lhc  |-> LastHeightValidatorsChanged]

   The specification models LoadValidators AS REPAIRED (proposed-fixes/
   C08-loadvalidators-per-height-increment.diff): the set in force at height h was
   produced from the stored one by ONE IncrementProposerPriority(1) PER BLOCK
   (updateState), and that is what the lookup replays.  The code as found calls
   IncrementProposerPriority(h - stored) once, which rescales/centres only once and
   gives different priorities - and a different proposer - whenever the priority window
   outgrows 2*total while rotating (possible right after a validator-set change).  That
   behaviour is the switch Weak_LoadSingleIncrement.                                 *)
EXTENDS TMValSet

CONSTANTS
  Checkpoint,                  \* valSetCheckpointInterval (100000 in the code)
  Weak_LoadSingleIncrement,    \* LoadValidators: one IncrementProposerPriority(h - stored) call (code as found)
  Weak_LoadNoIncrement,        \* LoadValidators returns the stored set without rotating it
  Weak_LoadOffByOne,           \* LoadValidators rotates h - stored - 1 times
  Weak_PruneDropsLastChanged,  \* PruneStates does not keep the record LastHeightChanged points to
  Weak_PruneDropsCheckpoint,   \* PruneStates does not keep the checkpoint record
  Weak_NoCheckpointRecord,     \* saveValidatorsInfo stores the full set only when the set changed
  Weak_PruneStatesOneTooFar,   \* consensus.State.pruneBlocks prunes the state store up to retainHeight+1
  Weak_RecoveryCopyDropsValUpdates \* SaveABCIResponses (DiscardABCIResponses on) writes the crash-recovery copy
                                   \* without EndBlock.ValidatorUpdates

NoSet == [vals |-> << >>, prop |-> NoVal]
AsSet(view) == [vals |-> view.vals, prop |-> view.prop, alias |-> FALSE]     \* ValidatorSetFromProto
Max2(a, b) == IF a >= b THEN a ELSE b
Put(db, h, rec) == [x \in (DOMAIN db) \cup {h} |-> IF x = h THEN rec ELSE db[x]]
EmptyDB == [x \in {} |-> [lhc |-> 0, set |-> NoSet]]

\* ------------------------------------------------------------------ state/state.go, execution.go
\* MakeGenesisState
GenesisState(valz, ih) ==
  LET v == NewValidatorSet(valz).set IN
  [h |-> 0, ih |-> ih, vals |-> v, nvals |-> IncrementProposerPriority(CopySet(v), 1), lhc |-> ih]

\* height of the block that takes state s to the next state
NextBlockHeight(s) == IF s.h = 0 THEN s.ih ELSE s.h + 1

\* updateState(state, header(height), validatorUpdates)
UpdateState(s, batch) ==
  LET hh == NextBlockHeight(s)
      n0 == CopySet(s.nvals)
      u  == IF Len(batch) > 0 THEN UpdateWithChangeSet(n0, batch) ELSE [err |-> "none", set |-> n0]
  IN IF u.err # "none" THEN [err |-> u.err, st |-> s]
     ELSE [err |-> "none",
           st |-> [h |-> hh, ih |-> s.ih,
                   vals |-> CopySet(s.nvals),
                   nvals |-> IncrementProposerPriority(u.set, 1),
                   lhc |-> IF Len(batch) > 0 THEN hh + 1 + 1 ELSE s.lhc]]

\* ------------------------------------------------------------------ state/store.go
\* saveValidatorsInfo(height, lastHeightChanged, valSet)
SaveValidatorsInfo(db, h, lhc, set) ==
  IF lhc > h THEN [err |-> "lhc_gt_height", db |-> db]
  ELSE [err |-> "none",
        db |-> Put(db, h, [lhc |-> lhc,
                           set |-> IF h = lhc \/ (h % Checkpoint = 0 /\ ~Weak_NoCheckpointRecord)
                                   THEN SetView(set) ELSE NoSet])]

\* dbStore.save (validator part)
SaveState(db, s) ==
  IF s.h + 1 = 1
  THEN LET r1 == SaveValidatorsInfo(db, s.ih, s.ih, s.vals) IN
       IF r1.err # "none" THEN r1 ELSE SaveValidatorsInfo(r1.db, s.ih + 1, s.lhc, s.nvals)
  ELSE SaveValidatorsInfo(db, s.h + 1 + 1, s.lhc, s.nvals)

\* dbStore.Bootstrap (validator part): three full records
BootstrapState(db, s, lvals) ==
  LET hh == IF s.h + 1 = 1 THEN s.ih ELSE s.h + 1
      d0 == IF hh > 1 /\ Len(lvals.vals) > 0 THEN SaveValidatorsInfo(db, hh - 1, hh - 1, lvals).db ELSE db
      d1 == SaveValidatorsInfo(d0, hh, hh, s.vals).db
  IN SaveValidatorsInfo(d1, hh + 1, hh + 1, s.nvals)

\* lastStoredHeightFor
LastStoredHeightFor(h, lhc) == Max2(h - (h % Checkpoint), lhc)

\* the rotation LoadValidators applies to the stored set
Rotate(view, n) ==
  IF Weak_LoadNoIncrement THEN view
  ELSE LET k == IF Weak_LoadOffByOne THEN n - 1 ELSE n IN
       IF k <= 0 THEN view
       ELSE IF Weak_LoadSingleIncrement THEN SetView(IncrementProposerPriority(AsSet(view), k))
       ELSE SetView(IncrementEach(AsSet(view), k))

\* LoadValidators(height)
LoadValidators(db, h) ==
  IF h \notin DOMAIN db THEN [err |-> "novalset", set |-> NoSet]
  ELSE IF db[h].set # NoSet THEN [err |-> "none", set |-> db[h].set]
  ELSE LET ls == LastStoredHeightFor(h, db[h].lhc) IN
       IF ls \notin DOMAIN db \/ db[ls].set = NoSet THEN [err |-> "notfound", set |-> NoSet]
       \* (h = ls cannot happen: the record at h itself would hold the set)
       ELSE [err |-> "none", set |-> Rotate(db[ls].set, h - ls)]

\* PruneStates(from, to): delete [from, to) except the records the set at `to` hangs on
PruneKeepSet(db, to) ==
  IF db[to].set # NoSet THEN {}
  ELSE (IF Weak_PruneDropsLastChanged THEN {} ELSE {db[to].lhc})
       \cup (IF Weak_PruneDropsCheckpoint THEN {}
             ELSE IF Weak_PruneDropsLastChanged THEN {to - (to % Checkpoint)}
             ELSE {LastStoredHeightFor(to, db[to].lhc)})
PruneStates(db, from, to) ==
  IF from <= 0 \/ to <= 0 THEN [err |-> "nonpositive", db |-> db]
  ELSE IF from >= to THEN [err |-> "from_ge_to", db |-> db]
  ELSE IF to \notin DOMAIN db THEN [err |-> "notfound", db |-> db]
  ELSE
  LET keep    == PruneKeepSet(db, to)
      range   == from..(to - 1)
      \* a kept height without a full set is materialised through LoadValidators
      rewrite == {h \in range \cap keep : h \notin DOMAIN db \/ db[h].set = NoSet}
      failed  == {h \in rewrite : LoadValidators(db, h).err # "none"}
  IN IF failed # {} THEN [err |-> "keep_unloadable", db |-> db]
     ELSE [err |-> "none",
           db |-> [h \in ((DOMAIN db) \ range) \cup (range \cap keep) |->
                     IF h \in rewrite THEN [lhc |-> h, set |-> LoadValidators(db, h).set] ELSE db[h]]]

\* consensus/state.go (*State).pruneBlocks(retainHeight): the block store drops every block
\* below retainHeight (new base = retainHeight), then the state store is pruned over
\* [base, retainHeight) - the upper bound is exclusive, so the validators record of the new
\* base, whose block is still served, survives.
ConsPrune(db, base, retain) ==
  PruneStates(db, base, IF Weak_PruneStatesOneTooFar THEN retain + 1 ELSE retain)

\* ------------------------------------------------------------------ crash-recovery copy of the ABCI responses
\* SaveABCIResponses(height, responses) always writes a second copy under lastABCIResponseKey
\* ("last ABCI response").  It is the ONLY source of the block's validator updates when the
\* node dies between the application's Commit and store.Save(state): the handshake
\* (consensus/replay.go, app = store = state+1) does LoadLastABCIResponse -> mock app ->
\* ApplyBlock -> updateState.  A response is modelled by what C08 depends on:
\*   [vu |-> validator updates (the batch), cpu |-> consensus-param update (0 = none)]
\* `discard` is StoreOptions.DiscardABCIResponses (it only stops the per-height copy).
LastResponseCopy(resp, discard) ==
  IF Weak_RecoveryCopyDropsValUpdates /\ discard THEN [resp EXCEPT !.vu = << >>] ELSE resp
\* the state the handshake rebuilds from the stored copy
RecoverFromStoredResponses(s, resp, discard) == UpdateState(s, LastResponseCopy(resp, discard).vu)
\* ... and the state the uninterrupted ApplyBlock computes from the responses in memory
ApplyBlockUpdates(s, resp) == UpdateState(s, resp.vu)

\* ------------------------------------------------------------------ properties
\* LookupExact at height h: the store answers, with exactly the set in force (validators
\* in order with priorities, and the proposer)
LookupExactAt(db, h, inforce) ==
  LET r == LoadValidators(db, h) IN r.err = "none" /\ r.set = inforce
\* PruneKeeps at height h: the record is there and whatever it hangs on is there with a set
PruneKeepsAt(db, h) ==
  /\ h \in DOMAIN db
  /\ db[h].set = NoSet =>
       LET ls == LastStoredHeightFor(h, db[h].lhc) IN ls \in DOMAIN db /\ db[ls].set # NoSet /\ ls < h
=============================================================================
