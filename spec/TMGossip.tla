------------------------------ MODULE TMGossip ------------------------------
(* The consensus reactor's GOSSIP (consensus/reactor.go), for ONE connected peer.

   What the real reactor sends to a peer is decided by three goroutines per peer,
       gossipDataRoutine     proposal, ProposalPOL, block parts (current part set / block store catch-up)
       gossipVotesRoutine    votes (current height, last commit, block-store commit)
       queryMaj23Routine     +2/3 claims (VoteSetMaj23), answered by the peer with VoteSetBits
   from two inputs only: the node's own round state  rs  (a copy of consensus.State.RoundState
   + the block store) and  prs  (cstypes.PeerRoundState inside PeerState: what the node BELIEVES
   about the peer, written by the peer's announcements and by the node's own successful sends).

   This module transcribes, as operators over values,
     - PeerState's bookkeeping (ApplyNewRoundStepMessage ... ApplyVoteSetBitsMessage, SetHas*,
       ensureVoteBitArrays, ensureCatchupCommitRound, getVoteBitArray, PickVoteToSend),
     - one iteration of each goroutine as a SET of possible outcomes (PickRandom is a free choice),
     - Reactor.Receive for the nine message kinds,
   and states the properties the framework needs from gossip (C03 assumes "idealised gossip"):
     GossipComplete   what a connected correct peer lacks, needs and the node holds is sent by one
                      of the routines' next picks (no starvation) -- see Lacks / Gaps / Quiescent
     PeerStateSound   prs never claims the peer has something it was neither sent nor announced.

   The node's own state is NOT re-modelled: a party (the node, and the correct peer) is
       [h, cn, parts, chain]
   where cn is a TMConsensusNode state (the validated model of consensus/state.go, one height),
   h the absolute height, parts the part indices held of cn.partsHdr, chain the committed blocks of
   the heights below h (block store).  Parties move by TMConsensusNode's own operators (Absorb).
   So this module composes with the consensus model by construction.

   Abstractions: bit arrays are sets of indices (NilBA = nil pointer); all validator sets have NVal
   members, all blocks NParts parts (sizes that differ are C17's subject, TMPeerGossip); a block id,
   its hash and its part-set header are one name; block names carry their height ("A2").
   Deliberate deviations of the code that the model reproduces are marked DEVIATION.             *)
EXTENDS Integers, Sequences, FiniteSets, TLC

CONSTANTS
  Vals, PowerOf, ProposerSeq, MaxRound, InvalidValues, Weak,    \* TMConsensusNode's constants
  ValSeq,           \* validator-set order: ValSeq[i+1] is the validator with index i
  NParts,           \* parts per block
  \* ---- bug switches: each is a plausible regression of reactor.go; FALSE in the real configs
  Weak_NoCatchupCommitParts,              \* gossipDataRoutine: the block-store catch-up branch is gone
  Weak_SkipPOLPrevotes,                   \* gossipVotesForHeight: the two ProposalPOLRound attempts are gone
  Weak_HasVoteNotRecorded,                \* Receive: HasVoteMessage no longer applied to the peer state
  Weak_Maj23QueryOnlyCurrentRound,        \* queryMaj23Routine: only (prs.Round, prevote/precommit); no POL round, no catch-up commit
  Weak_PartsOnlyForCurrentRoundProposal,  \* gossipDataRoutine: parts only when height AND round match
  Weak_SentVoteNotRecorded,               \* PickSendVote: SetHasVote after a successful send is gone
  Weak_NoLastCommitForLaggingPeer,        \* gossipVotesRoutine: "lagging by height 1 -> LastCommit" is gone
  Weak_VoteSetBitsIgnored,                \* Receive: VoteSetBitsMessage no longer applied
  Weak_NewValidBlockIgnored,              \* Receive: NewValidBlockMessage no longer applied to the peer state
  Weak_InitMarksPartsHad,                 \* InitProposalBlockParts: the fresh bit array is all ones
  Weak_VoteMarkedBeforeRoundCheck,        \* ApplyNewRoundStepMessage: Prevotes/Precommits survive a round change
  Weak_ClaimAppliedInReceive,             \* Receive: a VoteSetMaj23 claim is put into the vote sets by the reactor itself, before the
                                          \* reply is computed, instead of going through the peer queue (not in the WAL: a restart forgets it)
  AllowedGaps,                            \* the named gaps (GapClass below) that are exempt from GossipComplete
  Code_POLShadowedByCatchupRound          \* TRUE = the tree as it is: getVoteBitArray returns nil for prevotes of CatchupCommitRound
                                          \* before it looks at ProposalPOLRound (gap G6); FALSE = with proposed-fixes/GOSSIP-pol-shadowed.diff

CN == INSTANCE TMConsensusNode

Nil  == "nil"
None == "none"
NoProp == CN!NoProp
Prevote == 1
Precommit == 2
TName(t) == IF t = Prevote THEN "prevote" ELSE "precommit"
TOf(name) == IF name = "prevote" THEN Prevote ELSE Precommit

StNewHeight == 1  StNewRound == 2  StPropose == 3  StPrevote == 4  StPrevoteWait == 5
StPrecommit == 6  StPrecommitWait == 7  StCommit == 8

NVal == Len(ValSeq)
VIdx == 0..(NVal - 1)
ValAt(i) == ValSeq[i + 1]
Idx(v) == CHOOSE i \in VIdx : ValSeq[i + 1] = v
PartIx == 0..(NParts - 1)
NilBA == {-1}
Rounds == 0..MaxRound

\* ====================================================================== parties
\* a party = a consensus.State + its block store, projected
\* lcpm: the blocks a peer has claimed +2/3 precommits for in the vote set that is now cs.LastCommit (the VoteSet object, with
\* its peerMaj23 marks, moves from cs.Votes to cs.LastCommit when the height is decided)
NewParty == [h |-> 1, cn |-> CN!InitNode, parts |-> {}, chain |-> << >>, lcpm |-> {}]

\* environment inputs of a party (script elements; the Go driver executes the same records through
\* handleMsg / handleTimeout of a real consensus.State)
El(op, k, r, v, pol, src, i) == [op |-> op, k |-> k, r |-> r, v |-> v, pol |-> pol, src |-> src, i |-> i]
ElTo(k, r)           == El("to", k, r, "-", -2, "-", -1)
ElProp(r, v, pol)    == El("prop", "-", r, v, pol, "-", -1)
ElPart(v, i)         == El("part", "-", -1, v, -2, "-", i)
ElVote(t, r, src, v) == El("vote", TName(t), r, v, -2, src, -1)
ElStrag(r, src, v)   == El("strag", "precommit", r, v, -2, src, -1)
ElClaim(t, r, v)     == El("claim", TName(t), r, v, -2, "-", -1)

\* what store.SaveBlock keeps of the precommits (VoteSet.MakeCommit: votes for another block become absent)
CommitVotes(votes, blk) == [v \in Vals |-> IF votes[v] = blk \/ votes[v] = Nil THEN votes[v] ELSE None]

\* after a TMConsensusNode step: parts bookkeeping (a PartSet lives exactly as long as its header is the
\* expected one) and the move to the next height (finalizeCommit + updateToState)
Norm(x, c) ==
  IF c.decision # Nil
  THEN [h |-> x.h + 1,
        cn |-> [CN!InitNode EXCEPT !.lastCommit = c.lastCommit],
        parts |-> {},
        chain |-> Append(x.chain, [v |-> c.decision, r |-> c.lastCommit.r, votes |-> CommitVotes(c.lastCommit.votes, c.decision)]),
        lcpm |-> {q[2] : q \in x.cn.pc[c.lastCommit.r].pm}]
  ELSE [x EXCEPT !.cn = CN!ClearOut(c),
                 !.parts = IF c.partsHdr = Nil THEN {}
                           ELSE IF c.propBlock = c.partsHdr THEN PartIx
                           ELSE IF c.partsHdr = x.cn.partsHdr THEN x.parts ELSE {}]

\* one environment input handled by a party (cs.handleMsg / cs.handleTimeout / Votes.SetPeerMaj23)
Absorb(x, e) ==
  LET s == x.cn IN
  IF e.op = "to" THEN Norm(x, CN!HandleTimeout("me", s, e.k, e.r))
  ELSE IF e.op = "prop"
    THEN Norm(x, CN!HandleMsg("me", s, [t |-> "proposal", src |-> CN!Proposer(e.r), r |-> e.r, v |-> e.v, pol |-> e.pol], "ext"))
  ELSE IF e.op = "part"
    THEN IF s.partsHdr = Nil \/ s.partsHdr # e.v \/ e.i \in x.parts \/ s.propBlock = e.v THEN x
         ELSE LET ps == x.parts \cup {e.i} IN
              IF ps = PartIx THEN Norm([x EXCEPT !.parts = ps], CN!HandleMsg("me", s, [t |-> "block", v |-> e.v], "ext"))
              ELSE [x EXCEPT !.parts = ps]
  ELSE IF e.op = "vote"
    THEN Norm(x, CN!HandleMsg("me", s, [t |-> e.k, r |-> e.r, src |-> e.src, v |-> e.v], e.src))
  ELSE IF e.op = "strag"      \* a precommit of the previous height while in NewHeight: cs.LastCommit.AddVote
    THEN IF s.step = StNewHeight /\ s.lastCommit.r = e.r
            /\ (\/ s.lastCommit.votes[e.src] = None
                \* VoteSet.addVerifiedVote: a conflicting vote for the block that has the majority REPLACES the validator's
                \* entry in .votes even when it is then refused (not added) for want of a peer's claim
                \/ (s.lastCommit.votes[e.src] # e.v /\ x.h >= 2 /\ x.chain[x.h - 1].v = e.v))
         THEN [x EXCEPT !.cn.lastCommit.votes[e.src] = e.v] ELSE x
  ELSE IF e.op = "claim" THEN [x EXCEPT !.cn = CN!HandleClaim(s, e.k, e.r, "ext", e.v)]
  ELSE x

RECURSIVE RunScript(_, _)
RunScript(x, sq) == IF sq = << >> THEN x ELSE RunScript(Absorb(x, Head(sq)), Tail(sq))

RoundOf(x) == x.cn.round
StepOf(x)  == x.cn.step
HdrOf(x)   == x.cn.partsHdr
BitsOf(votes) == {i \in VIdx : votes[ValAt(i)] # None}
VS(x, t, r) == IF t = Prevote THEN x.cn.pv[r] ELSE x.cn.pc[r]
\* VoteSet.BitArrayByBlockID: NilBA when the vote set has no entry for the block (no vote for it, no claim)
ByBits(vs, b) == IF CN!ByFor(vs, b) = {} /\ ~CN!Claimed(vs, b) THEN NilBA ELSE {Idx(v) : v \in CN!ByFor(vs, b)}

\* ====================================================================== messages
\* one record shape for every kind (JSON friendly): k kind, h, r, t vote type, i index, v block,
\* pol, bits, s (step | bit-array size), c (IsCommit)
Msg(k, h, r, t, i, v, pol, bits, s, c) ==
  [k |-> k, h |-> h, r |-> r, t |-> t, i |-> i, v |-> v, pol |-> pol, bits |-> bits, s |-> s, c |-> c]
MNRS(h, r, s, lcr)     == Msg("NRS", h, r, 0, -1, "-", lcr, {}, s, FALSE)        \* pol carries LastCommitRound
MNVB(h, r, hdr, b, c)  == Msg("NVB", h, r, 0, -1, hdr, -2, b, NParts, c)
MHasVote(h, r, t, i)   == Msg("HasVote", h, r, t, i, "-", -2, {}, 0, FALSE)
MMaj23(h, r, t, v)     == Msg("Maj23", h, r, t, -1, v, -2, {}, 0, FALSE)
MVSBits(h, r, t, v, b, size) == Msg("VSBits", h, r, t, -1, v, -2, b, size, FALSE)
MProposal(h, r, v, pol) == Msg("Proposal", h, r, 0, -1, v, pol, {}, 0, FALSE)
MPOL(h, pol, b)        == Msg("POL", h, -1, 0, -1, "-", pol, b, NVal, FALSE)
MPart(h, r, i, hdr)    == Msg("BlockPart", h, r, 0, i, hdr, -2, {}, 0, FALSE)
MVote(h, r, t, i, v)   == Msg("Vote", h, r, t, i, v, -2, {}, 0, FALSE)

\* ====================================================================== PeerRoundState
NewPRS == [h |-> 0, r |-> -1, step |-> 0, proposal |-> FALSE,
           pbpHdr |-> Nil, pbp |-> NilBA,          \* ProposalBlockPartSetHeader, ProposalBlockParts
           polR |-> -1, pol |-> NilBA,             \* ProposalPOLRound, ProposalPOL
           pv |-> NilBA, pc |-> NilBA,             \* Prevotes, Precommits (of round r)
           lcR |-> -1, lc |-> NilBA,               \* LastCommitRound, LastCommit (height h-1)
           ccR |-> -1, cc |-> NilBA,               \* CatchupCommitRound, CatchupCommit
           ccAlias |-> FALSE]                      \* CatchupCommit and Precommits are the SAME *BitArray

\* PeerState.getVoteBitArray: which field holds the votes of (h, r, t)
VBAField(p, h, r, t) ==
  IF p.h = h THEN
       IF p.r = r THEN (IF t = Prevote THEN "pv" ELSE "pc")
       ELSE IF p.ccR = r /\ (t = Precommit \/ Code_POLShadowedByCatchupRound) THEN (IF t = Prevote THEN "none" ELSE "cc")
       ELSE IF p.polR = r THEN (IF t = Prevote THEN "pol" ELSE "none")
       ELSE "none"
  ELSE IF p.h = h + 1 THEN (IF p.lcR = r /\ t = Precommit THEN "lc" ELSE "none")
  ELSE "none"
Arr(p, f) == CASE f = "pv" -> p.pv [] f = "pc" -> p.pc [] f = "cc" -> p.cc [] f = "pol" -> p.pol
               [] f = "lc" -> p.lc [] OTHER -> NilBA
\* in-place mutation of one array (SetIndex / Update); an aliased array changes under both names
SetArr(p, f, a) ==
  CASE f = "pv"  -> [p EXCEPT !.pv = a]
    [] f = "pc"  -> [p EXCEPT !.pc = a, !.cc = IF p.ccAlias THEN a ELSE @]
    [] f = "cc"  -> [p EXCEPT !.cc = a, !.pc = IF p.ccAlias THEN a ELSE @]
    [] f = "pol" -> [p EXCEPT !.pol = a]
    [] f = "lc"  -> [p EXCEPT !.lc = a]
    [] OTHER     -> p

\* PeerState.setHasVote (BitArray.SetIndex checks the index)
SetHasVote(p, h, r, t, i) ==
  LET f == VBAField(p, h, r, t)  a == Arr(p, f) IN
  IF a = NilBA \/ i \notin VIdx THEN p ELSE SetArr(p, f, a \cup {i})

\* PeerState.ensureVoteBitArrays(height, numValidators): bits.NewBitArray(0) is nil
EnsureVBA(p, h, n) ==
  IF n <= 0 THEN p
  ELSE IF p.h = h THEN [p EXCEPT !.pv = IF @ = NilBA THEN {} ELSE @, !.pc = IF @ = NilBA THEN {} ELSE @,
                                 !.cc = IF @ = NilBA THEN {} ELSE @, !.pol = IF @ = NilBA THEN {} ELSE @]
  ELSE IF p.h = h + 1 THEN [p EXCEPT !.lc = IF @ = NilBA THEN {} ELSE @]
  ELSE p

\* PeerState.ensureCatchupCommitRound: `CatchupCommit = Precommits` copies the POINTER
EnsureCatchup(p, h, r) ==
  IF p.h # h \/ p.ccR = r THEN p
  ELSE IF r = p.r THEN [p EXCEPT !.ccR = r, !.cc = p.pc, !.ccAlias = (p.pc # NilBA)]
  ELSE [p EXCEPT !.ccR = r, !.cc = {}, !.ccAlias = FALSE]

CompareHRS(h1, r1, s1, h2, r2, s2) ==
  IF h1 < h2 THEN -1 ELSE IF h1 > h2 THEN 1 ELSE IF r1 < r2 THEN -1 ELSE IF r1 > r2 THEN 1
  ELSE IF s1 < s2 THEN -1 ELSE IF s1 > s2 THEN 1 ELSE 0

\* PeerState.ApplyNewRoundStepMessage, in the order of the code.
\* DEVIATION (as coded): Prevotes/Precommits are cleared BEFORE "shift Precommits to LastCommit", so after a
\* height change LastCommit is always nil: the node forgets which last-commit precommits the peer has.
ApplyNRS(p, m) ==
  IF CompareHRS(m.h, m.r, m.s, p.h, p.r, p.step) <= 0 THEN p
  ELSE LET p1 == [p EXCEPT !.h = m.h, !.r = m.r, !.step = m.s]
           p2 == IF p.h # m.h \/ p.r # m.r
                 THEN [p1 EXCEPT !.proposal = FALSE, !.pbpHdr = Nil, !.pbp = NilBA, !.polR = -1, !.pol = NilBA,
                                 !.pv = IF Weak_VoteMarkedBeforeRoundCheck /\ p.h = m.h THEN @ ELSE NilBA,
                                 !.pc = IF Weak_VoteMarkedBeforeRoundCheck /\ p.h = m.h THEN @ ELSE NilBA,
                                 !.ccAlias = IF Weak_VoteMarkedBeforeRoundCheck /\ p.h = m.h THEN @ ELSE FALSE]
                 ELSE p1
           p3 == IF p.h = m.h /\ p.r # m.r /\ m.r = p.ccR
                 THEN [p2 EXCEPT !.pc = p.cc, !.ccAlias = (p.cc # NilBA)] ELSE p2
           p4 == IF p.h # m.h
                 THEN [p3 EXCEPT !.lcR = m.pol,
                                 !.lc = IF p.h + 1 = m.h /\ p.r = m.pol THEN p3.pc ELSE NilBA,
                                 !.ccR = -1, !.cc = NilBA, !.ccAlias = FALSE]
                 ELSE p3
       IN p4

\* PeerState.SetHasProposal
ApplyProposal(p, h, prop) ==
  IF p.h # h \/ p.r # prop.r \/ p.proposal THEN p
  ELSE IF p.pbp # NilBA THEN [p EXCEPT !.proposal = TRUE]
  ELSE [p EXCEPT !.proposal = TRUE, !.pbpHdr = prop.v, !.pbp = {}, !.polR = prop.pol, !.pol = NilBA]

\* PeerState.InitProposalBlockParts
InitPBP(p, hdr) ==
  IF p.pbp # NilBA THEN p
  ELSE [p EXCEPT !.pbpHdr = hdr, !.pbp = IF Weak_InitMarksPartsHad THEN PartIx ELSE {}]

\* PeerState.SetHasProposalBlockPart
SetHasPart(p, h, r, i) ==
  IF p.h # h \/ p.r # r \/ p.pbp = NilBA \/ i \notin PartIx THEN p ELSE [p EXCEPT !.pbp = @ \cup {i}]

\* PeerState.ApplyProposalPOLMessage   DEVIATION (code comment "TODO: Merge onto existing"): the array is REPLACED
ApplyPOL(p, m) == IF p.h # m.h \/ p.polR # m.pol THEN p ELSE [p EXCEPT !.pol = m.bits]

\* PeerState.ApplyNewValidBlockMessage  (the array is the peer's own one: replaced)
ApplyNVB(p, m) ==
  IF Weak_NewValidBlockIgnored \/ p.h # m.h \/ (p.r # m.r /\ ~m.c) THEN p
  ELSE [p EXCEPT !.pbpHdr = m.v, !.pbp = m.bits]

\* PeerState.ApplyVoteSetBitsMessage: ours = NilBA when the node has no entry for the block / other height.
\* BitArray.Update copies the overlapping words only: a zero-size array changes nothing.
ApplyVSBits(p, m, ours) ==
  LET f == VBAField(p, m.h, m.r, m.t)  a == Arr(p, f) IN
  IF a = NilBA \/ Weak_VoteSetBitsIgnored THEN p
  ELSE IF ours = NilBA THEN (IF m.s = 0 THEN p ELSE SetArr(p, f, m.bits))
  ELSE SetArr(p, f, (a \ ours) \cup m.bits)

\* ====================================================================== vote readers (types.VoteSetReader)
NoVal == [i \in VIdx |-> None]
NilReader == [h |-> 0, r |-> -1, t |-> 0, size |-> 0, bits |-> {}, val |-> NoVal, commit |-> FALSE]
ReaderOf(h, r, t, votes, commit) ==
  [h |-> h, r |-> r, t |-> t, size |-> NVal, bits |-> BitsOf(votes), val |-> [i \in VIdx |-> votes[ValAt(i)]], commit |-> commit]
\* rs.Votes.Prevotes(r) / Precommits(r): nil for a round without vote sets.  VoteSet.IsCommit = precommits with ANY
\* +2/3 majority, nil included (maj23 != nil)
VSReader(x, t, r) ==
  IF r \notin x.cn.tracked THEN NilReader
  ELSE ReaderOf(x.h, r, t, VS(x, t, r).votes, t = Precommit /\ VS(x, t, r).maj # None)
\* rs.LastCommit: nil at the initial height
LCReader(x) == IF x.cn.lastCommit.r = -1 THEN NilReader
               ELSE ReaderOf(x.h - 1, x.cn.lastCommit.r, Precommit, x.cn.lastCommit.votes, TRUE)
\* blockStore.LoadBlockCommit(k)
StoreReader(x, k) == ReaderOf(k, x.chain[k].r, Precommit, x.chain[k].votes, TRUE)
StoreBase(x) == IF Len(x.chain) > 0 THEN 1 ELSE 0       \* no pruning in the model
StoreHeight(x) == Len(x.chain)

\* ====================================================================== the three goroutines
\* an outcome of one iteration: the peer state afterwards and what was sent, in order
Idle(p) == {[prs |-> p, sent |-> << >>]}

\* PeerState.PickSendVote = PickVoteToSend (lazy allocation stays even when nothing is picked) + Send + SetHasVote
PickSendVote(p, rd) ==
  IF rd.size = 0 THEN Idle(p)
  ELSE LET p1 == IF rd.commit THEN EnsureCatchup(p, rd.h, rd.r) ELSE p
           p2 == EnsureVBA(p1, rd.h, rd.size)
           a  == Arr(p2, VBAField(p2, rd.h, rd.r, rd.t))
       IN IF a = NilBA \/ rd.bits \ a = {} THEN Idle(p2)
          ELSE {[prs |-> IF Weak_SentVoteNotRecorded THEN p2 ELSE SetHasVote(p2, rd.h, rd.r, rd.t, i),
                 sent |-> <<MVote(rd.h, rd.r, rd.t, i, rd.val[i])>>] : i \in rd.bits \ a}

RECURSIVE TryAll(_, _)
TryAll(p, rds) ==
  IF rds = << >> THEN Idle(p)
  ELSE UNION { IF o.sent # << >> THEN {o} ELSE TryAll(o.prs, Tail(rds)) : o \in PickSendVote(p, Head(rds)) }

\* gossipVotesForHeight: the six attempts, guards evaluated on the snapshot prs
HeightReaders(n, p) ==
     (IF p.step = StNewHeight THEN <<LCReader(n)>> ELSE << >>)
  \o (IF p.step <= StPropose /\ p.r # -1 /\ p.r <= RoundOf(n) /\ p.polR # -1 /\ ~Weak_SkipPOLPrevotes
        THEN <<VSReader(n, Prevote, p.polR)>> ELSE << >>)
  \o (IF p.step <= StPrevoteWait /\ p.r # -1 /\ p.r <= RoundOf(n) THEN <<VSReader(n, Prevote, p.r)>> ELSE << >>)
  \o (IF p.step <= StPrecommitWait /\ p.r # -1 /\ p.r <= RoundOf(n) THEN <<VSReader(n, Precommit, p.r)>> ELSE << >>)
  \o (IF p.r # -1 /\ p.r <= RoundOf(n) THEN <<VSReader(n, Prevote, p.r)>> ELSE << >>)
  \o (IF p.polR # -1 /\ ~Weak_SkipPOLPrevotes THEN <<VSReader(n, Prevote, p.polR)>> ELSE << >>)

\* gossipVotesRoutine, one iteration
VotesOutcomes(n, p) ==
  TryAll(p,    (IF n.h = p.h THEN HeightReaders(n, p) ELSE << >>)
            \o (IF p.h # 0 /\ n.h = p.h + 1 /\ ~Weak_NoLastCommitForLaggingPeer THEN <<LCReader(n)>> ELSE << >>)
            \o (IF StoreBase(n) > 0 /\ p.h # 0 /\ n.h >= p.h + 2 /\ p.h >= StoreBase(n) THEN <<StoreReader(n, p.h)>> ELSE << >>))

\* gossipDataRoutine, one iteration (gossipDataForCatchup inlined)
DataOutcomes(n, p) ==
  LET hdrMatch == HdrOf(n) # Nil /\ HdrOf(n) = p.pbpHdr /\ p.pbp # NilBA
                  /\ (~Weak_PartsOnlyForCurrentRoundProposal \/ (n.h = p.h /\ RoundOf(n) = p.r))
      cand1  == IF hdrMatch THEN n.parts \ p.pbp ELSE {}
      behind == StoreBase(n) > 0 /\ 0 < p.h /\ p.h < n.h /\ p.h >= StoreBase(n) /\ ~Weak_NoCatchupCommitParts
  IN IF cand1 # {}
     THEN {[prs |-> SetHasPart(p, p.h, p.r, i), sent |-> <<MPart(n.h, RoundOf(n), i, HdrOf(n))>>] : i \in cand1}
     ELSE IF behind
     THEN IF p.pbp = NilBA THEN {[prs |-> InitPBP(p, n.chain[p.h].v), sent |-> << >>]}
          ELSE IF PartIx \ p.pbp # {} /\ n.chain[p.h].v = p.pbpHdr
          THEN {[prs |-> SetHasPart(p, p.h, p.r, i), sent |-> <<MPart(p.h, p.r, i, p.pbpHdr)>>] : i \in PartIx \ p.pbp}
          ELSE Idle(p)                   \* header mismatch (the peer collects another block) / nothing left: sleep
     ELSE IF n.h # p.h \/ RoundOf(n) # p.r THEN Idle(p)
     ELSE IF n.cn.prop # NoProp /\ ~p.proposal
     THEN {[prs |-> ApplyProposal(p, n.h, n.cn.prop),
            sent |-> <<MProposal(n.h, n.cn.prop.r, n.cn.prop.v, n.cn.prop.pol)>>
                     \o (IF 0 <= n.cn.prop.pol THEN <<MPOL(n.h, n.cn.prop.pol, BitsOf(n.cn.pv[n.cn.prop.pol].votes))>> ELSE << >>)]}
     ELSE Idle(p)

\* queryMaj23Routine, one iteration: up to four claims; the peer state is only read
Maj23Sends(n, p) ==
     (IF n.h = p.h /\ p.r \in n.cn.tracked /\ n.cn.pv[p.r].maj # None
        THEN <<MMaj23(p.h, p.r, Prevote, n.cn.pv[p.r].maj)>> ELSE << >>)
  \o (IF n.h = p.h /\ p.r \in n.cn.tracked /\ n.cn.pc[p.r].maj # None
        THEN <<MMaj23(p.h, p.r, Precommit, n.cn.pc[p.r].maj)>> ELSE << >>)
  \o (IF ~Weak_Maj23QueryOnlyCurrentRound /\ n.h = p.h /\ p.polR >= 0 /\ p.polR \in n.cn.tracked /\ n.cn.pv[p.polR].maj # None
        THEN <<MMaj23(p.h, p.polR, Prevote, n.cn.pv[p.polR].maj)>> ELSE << >>)
  \o (IF ~Weak_Maj23QueryOnlyCurrentRound /\ p.ccR # -1 /\ p.h > 0 /\ p.h <= StoreHeight(n) /\ p.h >= StoreBase(n)
        THEN <<MMaj23(p.h, n.chain[p.h].r, Precommit, n.chain[p.h].v)>> ELSE << >>)

\* ====================================================================== Reactor.Receive (peer -> node)
\* [n, prs, sent, queued]: Proposal / BlockPart / Vote AND (since the WAL repair) VoteSetMaj23 claims are queued for
\* consensus.State (cs.peerMsgQueue -> receiveRoutine -> WAL -> handleMsg); `queued` is what Receive put on the queue.
\* The VoteSetBits reply to a claim is computed at once from the vote sets as they are, i.e. BEFORE the claim takes
\* effect: for a block the node has no votesByBlock entry for yet it is the empty (size 0) array.
\* a message as an input of the receiving party's consensus.State
ToEl(x, m) ==
  IF m.k = "Vote" THEN
       IF m.h = x.h THEN ElVote(m.t, m.r, ValAt(m.i), m.v)
       ELSE IF m.h + 1 = x.h /\ m.t = Precommit THEN ElStrag(m.r, ValAt(m.i), m.v)
       ELSE El("nop", "-", -1, "-", -2, "-", -1)
  ELSE IF m.k = "BlockPart" /\ m.h = x.h THEN ElPart(m.v, m.i)
  ELSE IF m.k = "Proposal" /\ m.h = x.h THEN ElProp(m.r, m.v, m.pol)
  ELSE IF m.k = "Maj23" /\ m.h = x.h THEN ElClaim(m.t, m.r, m.v)
  ELSE El("nop", "-", -1, "-", -2, "-", -1)

VoteSetTracked(n, m) == n.h = m.h /\ m.r \in n.cn.tracked
Receive(n, p, m) ==
  LET same(q) == [n |-> n, prs |-> q, sent |-> << >>, queued |-> << >>]
      toState(q) == [n |-> n, prs |-> q, sent |-> << >>, queued |-> <<m>>] IN
  IF m.k = "NRS" THEN same(ApplyNRS(p, m))
  ELSE IF m.k = "NVB" THEN same(ApplyNVB(p, m))
  ELSE IF m.k = "HasVote" THEN same(IF Weak_HasVoteNotRecorded \/ p.h # m.h THEN p ELSE SetHasVote(p, m.h, m.r, m.t, m.i))
  ELSE IF m.k = "Maj23" THEN
       IF n.h # m.h THEN same(p)
       ELSE LET n1 == IF Weak_ClaimAppliedInReceive THEN Absorb(n, ElClaim(m.t, m.r, m.v)) ELSE n
                ours == IF VoteSetTracked(n1, m) THEN ByBits(VS(n1, m.t, m.r), m.v) ELSE NilBA
            IN [n |-> n1, prs |-> p,
                sent |-> <<MVSBits(m.h, m.r, m.t, m.v, IF ours = NilBA THEN {} ELSE ours, IF ours = NilBA THEN 0 ELSE NVal)>>,
                queued |-> IF Weak_ClaimAppliedInReceive THEN << >> ELSE <<m>>]
  ELSE IF m.k = "VSBits" THEN
       same(ApplyVSBits(p, m, IF VoteSetTracked(n, m) THEN ByBits(VS(n, m.t, m.r), m.v) ELSE NilBA))
  ELSE IF m.k = "Proposal" THEN toState(ApplyProposal(p, m.h, [r |-> m.r, v |-> m.v, pol |-> m.pol]))
  ELSE IF m.k = "POL" THEN same(ApplyPOL(p, m))
  ELSE IF m.k = "BlockPart" THEN toState(SetHasPart(p, m.h, m.r, m.i))
  ELSE IF m.k = "Vote" THEN
       toState(SetHasVote(EnsureVBA(EnsureVBA(p, n.h, NVal), n.h - 1, IF n.cn.lastCommit.r = -1 THEN 0 ELSE NVal), m.h, m.r, m.t, m.i))
  ELSE same(p)
\* cs.handleMsg for a queued message of the peer
Handle(n, m) == Absorb(n, ToEl(n, m))
RECURSIVE HandleAll(_, _)
HandleAll(n, ms) == IF ms = << >> THEN n ELSE HandleAll(Handle(n, Head(ms)), Tail(ms))

\* ====================================================================== the correct peer
\* What a correct peer does with a message of the node (its consensus.State handles Proposal / BlockPart / Vote; its
\* reactor answers VoteSetMaj23), and what it announces afterwards (its reactor's broadcasts, in the order the events
\* fire: HasVote, NewValidBlock, NewRoundStep).
HRS(x) == <<x.h, RoundOf(x), StepOf(x)>>
AnnNRS(x) == MNRS(x.h, RoundOf(x), StepOf(x), x.cn.lastCommit.r)
\* broadcastNewValidBlockMessage: IsCommit is rs.Step == RoundStepCommit AT THE TIME THE EVENT FIRES.
\* DEVIATION (as coded): enterCommit fires EventValidBlock before its deferred updateRoundStep(Commit), so the message
\* announcing the part-set header of a decided block carries IsCommit = false; it is accepted by the receivers only
\* because NewRoundStep (same channel, sent earlier) has already put prs.Round to the sender's round.
AnnNVB(x, c) == MNVB(x.h, RoundOf(x), HdrOf(x), x.parts, c)
HasVoteAt(x, h, r, t, i) ==
  IF h = x.h THEN r \in x.cn.tracked /\ VS(x, t, r).votes[ValAt(i)] # None
  ELSE IF h + 1 = x.h THEN t = Precommit /\ x.cn.lastCommit.r = r /\ x.cn.lastCommit.votes[ValAt(i)] # None
  ELSE FALSE

\* one input handled by a correct party + what its reactor broadcasts afterwards:
\*   EventVote -> HasVote (cs.addVote, as soon as the vote is added),
\*   EventValidBlock -> NewValidBlock (polka for a block in the current round; enterCommit with a NEW part-set header),
\*   EventNewRoundStep -> NewRoundStep (approximated by one message for the final height/round/step of the call)
Step1(y, e) ==
  LET y2 == Absorb(y, e)
      vh == IF e.op = "strag" THEN y.h - 1 ELSE y.h
      isVote == e.op \in {"vote", "strag"}
      \* EventVote fires for every vote the vote set ADDS: a first vote of the validator, or a conflicting one for a
      \* block a peer has claimed (VoteSet.addVote)
      \* (for cs.LastCommit: a first vote, or a conflicting one for a claimed block; a merely replaced entry is not an added vote)
      recorded(z) == IF e.op = "strag" THEN z.cn.lastCommit.votes[e.src] # None /\ ~(z.cn.lastCommit.votes[e.src] # e.v /\ e.v \in z.lcpm)
                     ELSE IF z.h = y.h THEN e.r \in z.cn.tracked /\ e.src \in CN!ByFor(VS(z, TOf(e.k), e.r), e.v)
                     ELSE z.cn.lastCommit.r = e.r /\ e.k = "precommit" /\ z.cn.lastCommit.votes[e.src] = e.v
      newVote == isVote /\ ~recorded(y) /\ recorded(y2)
      \* cs.addVote, prevote branch: EVERY added prevote of the current round re-fires EventValidBlock while a polka for a
      \* block exists and ValidRound is still behind (it stays behind as long as the block itself is missing)
      polka == /\ e.op = "vote" /\ e.k = "prevote" /\ newVote /\ y2.h = y.h /\ e.r = RoundOf(y)
               /\ y2.cn.pv[e.r].maj \notin {None, Nil} /\ y.cn.validR < e.r
      commitHdr == y2.h = y.h /\ StepOf(y2) = StCommit /\ StepOf(y) # StCommit /\ HdrOf(y2) # HdrOf(y)
  IN [x |-> y2,
      ann |->    (IF newVote THEN <<MHasVote(vh, e.r, TOf(e.k), Idx(e.src))>> ELSE << >>)
              \o (IF polka \/ commitHdr THEN <<AnnNVB(y2, polka /\ StepOf(y) = StCommit)>> ELSE << >>)
              \o (IF HRS(y2) # HRS(y) THEN <<AnnNRS(y2)>> ELSE << >>)]

\* a message of the node arrives at the peer
Deliver(x, m) ==
  LET s1 == Step1(x, ToEl(x, m))
      answer == IF m.k = "Maj23" /\ m.h = x.h
                \* (the peer's reactor: the reply is computed before its state machine handles the queued claim)
                THEN LET ours == IF m.r \in x.cn.tracked THEN ByBits(VS(x, m.t, m.r), m.v) ELSE NilBA
                     IN <<MVSBits(m.h, m.r, m.t, m.v, IF ours = NilBA THEN {} ELSE ours, IF ours = NilBA THEN 0 ELSE NVal)>>
                ELSE << >>
  IN [x |-> s1.x, ann |-> s1.ann \o answer]

\* ====================================================================== what the peer lacks
\* vote items [h, r, t, i, v] a party holds for absolute height h
VotesAt(x, h) ==
  IF h = x.h THEN
       {[h |-> h, r |-> r, t |-> t, i |-> i, v |-> VS(x, t, r).votes[ValAt(i)]] :
            r \in x.cn.tracked, t \in {Prevote, Precommit}, i \in VIdx}
  ELSE IF h = x.h - 1 /\ h >= 1 THEN
       {[h |-> h, r |-> x.cn.lastCommit.r, t |-> Precommit, i |-> i, v |-> x.cn.lastCommit.votes[ValAt(i)]] : i \in VIdx}
  ELSE IF h >= 1 /\ h < x.h - 1 THEN
       {[h |-> h, r |-> x.chain[h].r, t |-> Precommit, i |-> i, v |-> x.chain[h].votes[ValAt(i)]] : i \in VIdx}
  ELSE {}
Held(x, h) == {it \in VotesAt(x, h) : it.v # None}

\* a round in which the node knows a decision of height h: [r, v] or r = -1
CommitOf(n, h) ==
  IF h < n.h /\ h >= 1 THEN [r |-> n.chain[h].r, v |-> n.chain[h].v]
  ELSE IF h = n.h /\ \E r \in n.cn.tracked : n.cn.pc[r].maj \notin {None, Nil}
       THEN LET r == CHOOSE q \in n.cn.tracked : n.cn.pc[q].maj \notin {None, Nil} IN [r |-> r, v |-> n.cn.pc[r].maj]
  ELSE [r |-> -1, v |-> Nil]

\* the vote slots (round, type) of its own height a correct peer x can still use:
\*   prevotes of its round (always: valid-block mechanism), precommits of its round until it has decided,
\*   prevotes of the POL round of the proposal it holds, and the precommits of a round that decided the height
NeedsSlot(n, x, r, t) ==
  \/ r = RoundOf(x) /\ t = Prevote
  \/ r = RoundOf(x) /\ t = Precommit /\ StepOf(x) <= StPrecommitWait
  \/ t = Prevote /\ x.cn.prop # NoProp /\ x.cn.prop.pol = r
  \/ t = Precommit /\ CommitOf(n, x.h).r = r /\ StepOf(x) # StCommit

\* index-level lack: the peer has NO vote of that validator in that slot
VoteLacks(n, x) ==
  {it \in Held(n, x.h) : NeedsSlot(n, x, it.r, it.t)
                         /\ ~\E o \in Held(x, x.h) : o.r = it.r /\ o.t = it.t /\ o.i = it.i}
\* value-level lack under equivocation: the peer holds ANOTHER vote of that validator, the node's one is for the block
\* that has +2/3 at the node (resolved by VoteSetMaj23 / VoteSetBits: the peer records votes for a claimed block
\* besides its own conflicting one -- VoteSet.votesByBlock)
HoldsFor(x, it) == x.h = it.h /\ it.r \in x.cn.tracked /\ ValAt(it.i) \in CN!ByFor(VS(x, it.t, it.r), it.v)
ConflictLacks(n, x) ==
  {it \in Held(n, x.h) : NeedsSlot(n, x, it.r, it.t) /\ it.v # Nil
        /\ (\E o \in Held(x, x.h) : o.r = it.r /\ o.t = it.t /\ o.i = it.i /\ o.v # it.v)
        /\ (IF x.h = n.h THEN it.r \in n.cn.tracked /\ VS(n, it.t, it.r).maj = it.v ELSE CommitOf(n, x.h).v = it.v)
        /\ ~HoldsFor(x, it)}

\* last-commit stragglers: precommits of height h-1 for a peer in NewHeight of the node's height
StragglerLacks(n, x) ==
  IF x.h = n.h /\ StepOf(x) = StNewHeight /\ n.cn.lastCommit.r # -1 /\ x.cn.lastCommit.r = n.cn.lastCommit.r
  THEN {it \in Held(n, n.h - 1) : x.cn.lastCommit.votes[ValAt(it.i)] = None} ELSE {}

\* parts of the part set the peer is collecting
NodePartsOf(n, h, hdr) ==
  IF hdr = Nil THEN {}
  ELSE IF h = n.h /\ HdrOf(n) = hdr THEN n.parts
  ELSE IF h >= 1 /\ h < n.h /\ n.chain[h].v = hdr THEN PartIx
  ELSE {}
PartLacks(n, x) == NodePartsOf(n, x.h, HdrOf(x)) \ x.parts
\* kh: the part-set headers the peer told this node about (NewValidBlock) or that were exchanged in a Proposal
KH(h, r, hdr, c) == [h |-> h, r |-> r, hdr |-> hdr, c |-> c]
KnownH(kh, m) == IF m.k = "NVB" THEN kh \cup {KH(m.h, m.r, m.v, m.c)}
                 ELSE IF m.k = "Proposal" THEN kh \cup {KH(m.h, m.r, m.v, FALSE)} ELSE kh
HeaderTold(x, kh) == \E e \in kh : e.h = x.h /\ e.hdr = HdrOf(x) /\ (e.c \/ e.r = RoundOf(x))

ProposalLack(n, x) == n.h = x.h /\ n.cn.prop # NoProp /\ n.cn.prop.r = RoundOf(x) /\ RoundOf(n) = RoundOf(x) /\ x.cn.prop = NoProp

\* ---------------------------------------------------------------------- named gaps (what the real reactor never serves)
AllGaps == {"G1_PeerAheadRound", "G2_CommitOtherRound", "G3_LockedBlockNotServed", "G4_POLRoundUnknown", "G5_HeaderUnknown",
            "G6_POLShadowedByCatchupRound"}
\* G1 PeerAheadRound    same height, the peer's round is LATER than the node's: every attempt of gossipVotesForHeight is
\*                      guarded by prs.Round <= rs.Round, so votes the node holds for the peer's round (round+1 vote sets,
\*                      catch-up rounds) are not forwarded until the node itself reaches that round.
\* G2 CommitOtherRound  same height, the node knows +2/3 precommits of round cr (commit step, waiting for the block) and the
\*                      peer is in another round: the commit precommits are not sent while the node stays at that height
\*                      (they are once the node moved on: LastCommit / block-store commit).
\* G4 POLRoundUnknown   the POL round of the peer's proposal is known to the node only through a Proposal message exchanged
\*                      with THIS peer for the peer's current round (PeerState.SetHasProposal); otherwise neither the
\*                      POL prevotes nor the POL claim are sent.
\* G6 POLShadowedByCatchupRound  getVoteBitArray looks at CatchupCommitRound BEFORE ProposalPOLRound and returns nil for
\*                      prevotes of that round.  VoteSet.IsCommit is true for +2/3 NIL precommits too, so after the node sent
\*                      a precommit of a failed round r to the peer, CatchupCommitRound = r, and when the peer later gets a
\*                      proposal with POLRound = r the node can neither track nor send the POL prevotes (nor does the claim help).
\* G5 HeaderUnknown     same height: which part set the peer is collecting is known to the node only from a NewValidBlock of
\*                      the peer or a Proposal exchanged with it for the peer's current round; a node in another round
\*                      that holds parts of that very block does not send them.
\* G3 LockedBlockNotServed  gossipDataRoutine reads rs.ProposalBlockParts only: a block the node holds as LockedBlock / ValidBlock
\*                      (LockedBlockParts / ValidBlockParts) is not gossiped to a peer collecting it unless it is also the
\*                      node's current proposal block.  (Not part of Lacks -- "holds" there means ProposalBlockParts or the
\*                      block store; listed so that the situations are counted.)
LockedBlockItems(n, x) ==
  IF x.h = n.h /\ HdrOf(x) # Nil /\ (n.cn.lockedV = HdrOf(x) \/ n.cn.validV = HdrOf(x))
  THEN (PartIx \ x.parts) \ NodePartsOf(n, x.h, HdrOf(x)) ELSE {}
GapClass(n, x, p, it) ==
  IF x.h # n.h THEN "none"
  ELSE IF RoundOf(x) > RoundOf(n) /\ it.r >= RoundOf(x) THEN "G1_PeerAheadRound"
  ELSE IF it.t = Precommit /\ it.r # RoundOf(x) /\ CommitOf(n, x.h).r = it.r THEN "G2_CommitOtherRound"
  ELSE IF it.t = Prevote /\ it.r # RoundOf(x) /\ p.polR # it.r THEN "G4_POLRoundUnknown"
  ELSE IF it.t = Prevote /\ it.r # RoundOf(x) /\ p.ccR = it.r THEN "G6_POLShadowedByCatchupRound"
  ELSE "none"
Gapped(n, x, p, it) == GapClass(n, x, p, it) \in AllowedGaps

\* everything the peer lacks, needs, the node holds and the reactor is expected to serve, as tagged records of one shape
LackRec(c, h, r, t, i, v) == [c |-> c, h |-> h, r |-> r, t |-> t, i |-> i, v |-> v]
PartGapped(n, x, kh) == "G5_HeaderUnknown" \in AllowedGaps /\ x.h = n.h /\ ~HeaderTold(x, kh)
Lacks(n, x, p, kh) ==
       {LackRec("vote", it.h, it.r, it.t, it.i, it.v) : it \in {q \in VoteLacks(n, x) : ~Gapped(n, x, p, q)}}
  \cup {LackRec("conflict", it.h, it.r, it.t, it.i, it.v) : it \in {q \in ConflictLacks(n, x) : ~Gapped(n, x, p, q)}}
  \cup {LackRec("straggler", it.h, it.r, it.t, it.i, it.v) : it \in StragglerLacks(n, x)}
  \cup {LackRec("part", x.h, -1, 0, i, HdrOf(x)) : i \in (IF PartGapped(n, x, kh) THEN {} ELSE PartLacks(n, x))}
  \cup (IF ProposalLack(n, x) THEN {LackRec("proposal", x.h, RoundOf(x), 0, -1, n.cn.prop.v)} ELSE {})
GapItems(n, x, p, kh) ==
       {LackRec(GapClass(n, x, p, it), it.h, it.r, it.t, it.i, it.v) :
                         it \in {q \in VoteLacks(n, x) \cup ConflictLacks(n, x) : GapClass(n, x, p, q) # "none"}}
  \cup (IF x.h = n.h /\ ~HeaderTold(x, kh) THEN {LackRec("G5_HeaderUnknown", x.h, -1, 0, i, HdrOf(x)) : i \in PartLacks(n, x)} ELSE {})
  \cup {LackRec("G3_LockedBlockNotServed", x.h, -1, 0, i, HdrOf(x)) : i \in LockedBlockItems(n, x)}

\* +2/3 claims the node can make about slots the peer can use ("claims are exchanged"): each is re-sent by every
\* iteration of queryMaj23Routine (the catch-up claim once gossipVotesRoutine has set CatchupCommitRound)
ClaimsDue(n, x, p) ==
  LET rs == IF n.h = x.h THEN ({RoundOf(x)} \cap n.cn.tracked) ELSE {}
      a  == {MMaj23(x.h, r, t, VS(n, t, r).maj) : r \in rs, t \in {Prevote, Precommit}}
      pr == IF n.h = x.h /\ x.cn.prop # NoProp /\ x.cn.prop.pol \in n.cn.tracked /\ ~("G4_POLRoundUnknown" \in AllowedGaps /\ p.polR # x.cn.prop.pol)
            THEN {x.cn.prop.pol} ELSE {}
      b  == {MMaj23(x.h, r, Prevote, n.cn.pv[r].maj) : r \in pr}
      c  == IF x.h < n.h /\ x.h >= 1 THEN {MMaj23(x.h, n.chain[x.h].r, Precommit, n.chain[x.h].v)} ELSE {}
  IN {m \in a \cup b : m.v # None} \cup c
ClaimsMissing(n, x, p) == {m \in ClaimsDue(n, x, p) : ~\E k \in DOMAIN Maj23Sends(n, p) : Maj23Sends(n, p)[k] = m}

\* ====================================================================== properties (as predicates over values)
\* known*: everything the peer announced or was sent, keyed by absolute slot
KV(h, r, t, i) == <<h, r, t, i>>
KP(h, hdr, i) == [h |-> h, hdr |-> hdr, i |-> i]
SoundViolations(p, kv, kp, kprop) ==
       {<<"pv", i>> : i \in {j \in (IF p.pv = NilBA THEN {} ELSE p.pv) : KV(p.h, p.r, Prevote, j) \notin kv}}
  \cup {<<"pc", i>> : i \in {j \in (IF p.pc = NilBA THEN {} ELSE p.pc) : KV(p.h, p.r, Precommit, j) \notin kv}}
  \cup {<<"pol", i>> : i \in {j \in (IF p.pol = NilBA THEN {} ELSE p.pol) : KV(p.h, p.polR, Prevote, j) \notin kv}}
  \cup {<<"cc", i>> : i \in {j \in (IF p.cc = NilBA THEN {} ELSE p.cc) : KV(p.h, p.ccR, Precommit, j) \notin kv}}
  \cup {<<"lc", i>> : i \in {j \in (IF p.lc = NilBA THEN {} ELSE p.lc) : KV(p.h - 1, p.lcR, Precommit, j) \notin kv}}
  \cup {<<"pbp", i>> : i \in {j \in (IF p.pbp = NilBA THEN {} ELSE p.pbp) : KP(p.h, p.pbpHdr, j) \notin kp}}
  \cup (IF p.proposal /\ <<p.h, p.r>> \notin kprop THEN {<<"proposal", -1>>} ELSE {})
PeerStateSoundP(p, kv, kp, kprop) == SoundViolations(p, kv, kp, kprop) = {}

\* ghost update by a message in either direction
KnownV(kv, m) ==
  IF m.k \in {"Vote", "HasVote"} THEN kv \cup {KV(m.h, m.r, m.t, m.i)}
  ELSE IF m.k = "VSBits" THEN kv \cup {KV(m.h, m.r, m.t, i) : i \in m.bits}
  ELSE IF m.k = "POL" THEN kv \cup {KV(m.h, m.pol, Prevote, i) : i \in m.bits}
  ELSE kv
KnownP(kp, m) ==
  IF m.k = "BlockPart" THEN kp \cup {KP(m.h, m.v, m.i)}
  ELSE IF m.k = "NVB" THEN kp \cup {KP(m.h, m.v, i) : i \in m.bits}
  ELSE kp
KnownProp(kprop, m) == IF m.k = "Proposal" THEN kprop \cup {<<m.h, m.r>>} ELSE kprop

\* a send is redundant if the peer state (before) says the peer has it
Redundant(p, m) ==
  IF m.k = "Vote" THEN m.i \in Arr(p, VBAField(p, m.h, m.r, m.t))
  ELSE IF m.k = "BlockPart" THEN p.pbp # NilBA /\ m.i \in p.pbp /\ p.pbpHdr = m.v
  ELSE IF m.k = "Proposal" THEN p.proposal /\ p.h = m.h /\ p.r = m.r
  ELSE FALSE

\* a successful send is recorded in the peer state (mid = the peer state right after the iteration)
Recorded(mid, m) ==
  IF m.k = "Vote" THEN LET f == VBAField(mid, m.h, m.r, m.t) IN f = "none" \/ Arr(mid, f) = NilBA \/ m.i \in Arr(mid, f)
  ELSE IF m.k = "BlockPart" THEN mid.pbp = NilBA \/ m.i \in mid.pbp
  ELSE IF m.k = "Proposal" THEN mid.h # m.h \/ mid.r # m.r \/ mid.proposal
  ELSE TRUE
\* an announcement of the peer is recorded in the peer state (q = the peer state after Receive), for the slots it tracks
AnnRecorded(q, m) ==
  IF m.k = "HasVote" THEN LET f == VBAField(q, m.h, m.r, m.t) IN q.h # m.h \/ f = "none" \/ Arr(q, f) = NilBA \/ m.i \in Arr(q, f) \/ m.i \notin VIdx
  ELSE IF m.k = "NVB" THEN q.h # m.h \/ (q.r # m.r /\ ~m.c) \/ (q.pbpHdr = m.v /\ m.bits \subseteq q.pbp)
  ELSE TRUE

\* a send is truthful if the node holds what it sends
Truthful(n, m) ==
  IF m.k = "Vote" THEN \E it \in Held(n, m.h) : it.r = m.r /\ it.t = m.t /\ it.i = m.i /\ it.v = m.v
  ELSE IF m.k = "BlockPart" THEN
          \/ (HdrOf(n) = m.v /\ m.i \in n.parts)
          \/ (\E k \in 1..Len(n.chain) : n.chain[k].v = m.v /\ m.i \in PartIx)
  ELSE IF m.k = "Proposal" THEN n.h = m.h /\ n.cn.prop = [r |-> m.r, v |-> m.v, pol |-> m.pol]
  ELSE IF m.k = "POL" THEN n.h = m.h /\ m.pol \in n.cn.tracked /\ m.bits = BitsOf(n.cn.pv[m.pol].votes)
  ELSE IF m.k = "Maj23" THEN
          \/ (n.h = m.h /\ m.r \in n.cn.tracked /\ VS(n, m.t, m.r).maj = m.v)
          \/ (m.h >= 1 /\ m.h < n.h /\ m.t = Precommit /\ n.chain[m.h].r = m.r /\ n.chain[m.h].v = m.v)
  ELSE TRUE

\* no routine has anything to send or to prepare, and the claim exchange changes nothing
DataIdle(n, p)  == DataOutcomes(n, p) = Idle(p)
VotesIdle(n, p) == VotesOutcomes(n, p) = Idle(p)
=============================================================================
