------------------------- MODULE TMReactorAlphabet -------------------------
(* The hostile MESSAGE-CLASS ALPHABET of C17 (DESIGN.md section 5 C17 / section 6):
   for every reactor, every protobuf message kind it accepts (proto/tendermint/<x>/types.proto,
   consensus/msgs.go MsgFromProto, blockchain/msgs.go ValidateMsg, statesync/messages.go
   validateMsg, evidence/reactor.go evidenceListFromProto, p2p/pex ReceiveEnvelope), crossed
   with field-value classes (one named deviation from a valid message each), peer-state
   classes and wire-encoding classes.  A case is one record; the Go harnesses execute one
   concrete instance of every case on the real reactor behind a real MConnection.

   Expect(c) is what the code is specified to do with the case (level 1, conformance);
   OutcomeAllowed(o) is what the PROPERTY allows as an observed outcome (level 2).        *)
EXTENDS Integers, Sequences, FiniteSets, TLC

CONSTANTS
  Weak_BitArrayUnchecked,       \* consensus messages accept a wire BitArray whose Elems do not match Bits
                                \* (no bits.BitArray.ValidateBasic): the behaviour of the unrepaired tree
  Weak_ProposalTotalUnbounded   \* ProposalMessage.ValidateBasic does not bound BlockID.PartSetHeader.Total
                                \* (the behaviour of the unrepaired tree)

Reactors == {"consensus", "mempool", "evidence", "blockchain", "statesync", "pex"}

\* classes shared by every integer "height" / "round" field
HeightFC == {"h_zero", "h_neg", "h_max", "h_far", "h_prev", "h_next"}
RoundFC  == {"r_neg", "r_max", "r_next"}
\* classes of a libs/bits.BitArray on the wire: Bits and Elems are independent protobuf fields
BitsFC   == {"bits_nil", "bits_zero", "bits_elems_missing", "bits_elems_short", "bits_elems_extra",
             "bits_neg", "bits_neg_big", "bits_over_max", "bits_one", "bits_max_allowed"}

\* ------------------------------------------------------------------ consensus (consensus/reactor.go)
ConsKinds == {"NewRoundStep", "NewValidBlock", "Proposal", "ProposalPOL", "BlockPart", "Vote",
              "HasVote", "VoteSetMaj23", "VoteSetBits", "Empty"}
ConsFC(k) ==
  CASE k = "NewRoundStep"  -> {"valid"} \cup HeightFC \cup RoundFC \cup
                              {"step_zero", "step_max", "lcr_neg2", "lcr_max", "lcr_mismatch", "ssst_min", "ssst_max"}
    [] k = "NewValidBlock" -> {"valid", "valid_commit"} \cup HeightFC \cup RoundFC \cup BitsFC \cup
                              {"psh_total_zero", "psh_total_max", "psh_hash_short", "psh_foreign"}
    [] k = "Proposal"      -> {"valid"} \cup HeightFC \cup RoundFC \cup
                              {"inner_zero", "type_wrong", "pol_lt_m1", "pol_ge_round", "blockid_incomplete",
                               "psh_total_zero", "psh_total_max", "psh_total_big", "sig_empty", "sig_long"}
    [] k = "ProposalPOL"   -> {"valid"} \cup HeightFC \cup BitsFC \cup {"pol_neg", "pol_max"}
    [] k = "BlockPart"     -> {"valid"} \cup HeightFC \cup RoundFC \cup
                              {"part_zero", "index_max", "bytes_empty", "bytes_oversize", "proof_total_neg",
                               "proof_index_neg", "proof_total_max", "proof_leaf_short", "proof_aunts_many"}
    [] k = "Vote"          -> {"valid"} \cup HeightFC \cup RoundFC \cup
                              {"inner_nil", "type_invalid", "index_neg", "index_max", "index_eq_n", "addr_short",
                               "sig_empty", "sig_long", "blockid_incomplete", "precommit", "lastcommit"}
    [] k = "HasVote"       -> {"valid"} \cup HeightFC \cup RoundFC \cup {"type_invalid", "index_neg", "index_max", "index_eq_n"}
    [] k = "VoteSetMaj23"  -> {"valid"} \cup HeightFC \cup RoundFC \cup {"type_invalid", "blockid_hash_short", "blockid_zero", "precommit"}
    [] k = "VoteSetBits"   -> {"valid"} \cup HeightFC \cup RoundFC \cup BitsFC \cup {"type_invalid", "blockid_hash_short", "precommit"}
    [] k = "Empty"         -> {"no_sum", "wrong_channel_vote", "wrong_channel_nrs", "wrong_channel_proposal"}
\* peer state as the node sees it (consensus.PeerState) x node state
ConsPS == {"fresh",     \* nothing received from the peer yet (PRS.Height = 0), node at H=1 with its own proposal
           "nrs",       \* after a NewRoundStep for the node's height/round
           "mid",       \* + NewValidBlock for the node's proposal + a vote: bit arrays allocated
           "nrs_h2",    \* node at H=2 (block 1 stored), peer announced H=2
           "behind",    \* node at H=2, peer announced H=1: catch-up gossip towards the peer
           "syncing"}   \* reactor in WaitSync mode (fast/state sync running)

\* ------------------------------------------------------------------ mempool (mempool/v0/reactor.go)
MemKinds == {"Txs", "Empty"}
MemFC(k) == CASE k = "Txs"   -> {"valid", "list_empty", "tx_empty", "tx_max", "tx_over_max", "many_txs", "dup_txs", "tx_rejected"}
              [] k = "Empty" -> {"no_sum"}
MemPS == {"fresh", "known_height"}

\* ------------------------------------------------------------------ evidence (evidence/reactor.go)
EvKinds == {"EvidenceList"}
EvFC(k) == {"list_empty", "ev_no_sum", "dup_zero", "dup_nil_votes", "dup_unverifiable", "dup_far_height", "dup_neg_power",
            "dup_same_votes", "lca_zero", "lca_nil_block", "lca_nil_valset", "lca_neg_height", "many_items"}
EvPS == {"fresh"}

\* ------------------------------------------------------------------ blockchain v0 (blockchain/v0/reactor.go)
BcKinds == {"BlockRequest", "NoBlockResponse", "StatusRequest", "StatusResponse", "BlockResponse", "Empty"}
BcFC(k) ==
  CASE k = "BlockRequest"    -> {"valid", "h_zero", "h_neg", "h_max", "h_far"}
    [] k = "NoBlockResponse" -> {"valid", "h_neg", "h_max"}
    [] k = "StatusRequest"   -> {"valid"}
    [] k = "StatusResponse"  -> {"valid", "base_neg", "h_neg", "base_gt_height", "h_max", "h_zero"}
    [] k = "BlockResponse"   -> {"block_nil", "block_zero", "unsolicited_near", "unsolicited_far", "header_neg_height",
                                 "lastcommit_nil", "evidence_bad", "data_huge"}
    [] k = "Empty"           -> {"no_sum"}
BcPS == {"fresh_synced", "fresh_syncing", "known_syncing"}

\* ------------------------------------------------------------------ statesync (statesync/reactor.go)
SsKinds == {"SnapshotsRequest", "SnapshotsResponse", "ChunkRequest", "ChunkResponse", "Empty"}
SsFC(k) ==
  CASE k = "SnapshotsRequest"  -> {"valid"}
    [] k = "SnapshotsResponse" -> {"valid", "h_zero", "h_max", "hash_empty", "chunks_zero", "chunks_max", "format_max", "metadata_big"}
    [] k = "ChunkRequest"      -> {"valid", "h_zero", "h_max", "index_max", "format_max"}
    [] k = "ChunkResponse"     -> {"valid", "h_zero", "missing_with_chunk", "present_nil_chunk", "index_max", "chunk_big", "missing"}
    [] k = "Empty"             -> {"no_sum", "wrong_channel_chunk", "wrong_channel_snapshot"}
SsPS == {"idle", "syncing"}

\* ------------------------------------------------------------------ pex (p2p/pex/pex_reactor.go)
PexKinds == {"PexRequest", "PexAddrs", "Empty"}
PexFC(k) ==
  CASE k = "PexRequest" -> {"valid", "twice", "thrice"}
    [] k = "PexAddrs"   -> {"unsolicited", "list_empty", "valid", "id_bad", "ip_bad", "port_zero", "port_big", "self",
                            "private_ip", "many", "dup"}
    [] k = "Empty"      -> {"no_sum"}
PexPS == {"fresh", "requested"}       \* requested: the node has asked this peer for addresses

Kinds(r) == CASE r = "consensus" -> ConsKinds [] r = "mempool" -> MemKinds [] r = "evidence" -> EvKinds
              [] r = "blockchain" -> BcKinds [] r = "statesync" -> SsKinds [] r = "pex" -> PexKinds
FC(r, k) == CASE r = "consensus" -> ConsFC(k) [] r = "mempool" -> MemFC(k) [] r = "evidence" -> EvFC(k)
              [] r = "blockchain" -> BcFC(k) [] r = "statesync" -> SsFC(k) [] r = "pex" -> PexFC(k)
PS(r) == CASE r = "consensus" -> ConsPS [] r = "mempool" -> MemPS [] r = "evidence" -> EvPS
           [] r = "blockchain" -> BcPS [] r = "statesync" -> SsPS [] r = "pex" -> PexPS

\* wire-encoding classes: the protobuf encoding of the class instance, or a damaged copy of it
\* pushed through the same channel (decoded by p2p/peer.go onReceive: Unmarshal / Unwrap)
DamagedEnc == {"truncated", "truncated1", "bitflip_first", "bitflip_len", "bitflip_mid", "bitflip_last",
               "garbage", "append_junk"}

\* the instance of a kind whose encoding is damaged: the valid one where the alphabet has one
BaseFC(r, k) == IF "valid" \in FC(r, k) THEN "valid"
                ELSE IF r = "evidence" THEN "dup_unverifiable"
                ELSE IF k = "BlockResponse" THEN "unsolicited_near"
                ELSE IF k = "PexAddrs" THEN "unsolicited"
                ELSE CHOOSE f \in FC(r, k) : TRUE

\* every (reactor, kind, field class, peer state) with the intact encoding, and every damaged
\* encoding of the base instance of each kind in each peer state
Cases ==
  UNION {UNION {UNION {
      {[reactor |-> r, kind |-> k, fc |-> f, ps |-> p, enc |-> "proto"] : p \in PS(r)}
        : f \in FC(r, k)} : k \in Kinds(r)} : r \in Reactors}
  \cup
  UNION {UNION {
      {[reactor |-> r, kind |-> k, fc |-> BaseFC(r, k), ps |-> p, enc |-> e] : p \in PS(r), e \in DamagedEnc}
        : k \in Kinds(r) \ {"Empty"}} : r \in Reactors}

\* ------------------------------------------------------------------ what the property allows
\* An observed outcome o (one per executed case):
\*   barrier  "echo" the peer's recvRoutine went on / "stopped" the peer was removed / "timeout" it hangs
\*   honest   the same barrier on the permanently connected honest peer
\*   probe    node-level liveness probe of the package ("ok" or what hangs)
\*   consensus_failure  number of "CONSENSUS FAILURE!!!" (consensus state machine halted)
\*   retained bytes still reachable after the case, cap = RecvMessageCapacity of the channel
\*   crash    the process died while the case executed
\* "never makes it buffer more than the channel's configured capacity": what one message may leave
\* behind is the connection's reassembly buffer (Channel.recving keeps its backing array, at most
\* RecvMessageCapacity bytes, for the life of the connection) plus at most one stored copy of the
\* message if the reactor accepts it (a transaction, a snapshot description, ...), also at most
\* RecvMessageCapacity bytes; RetainedSlack is the measurement noise of the heap probe.
RetainedSlack == 1048576
RetainedBound(o) == 2 * o.cap + RetainedSlack
OutcomeAllowed(o) ==
  /\ o.barrier \in {"echo", "stopped"}
  /\ o.honest = "echo"
  /\ o.probe = "ok"
  /\ o.consensus_failure = 0
  /\ o.retained <= RetainedBound(o)
ViolationClass(o) ==
  IF o.barrier \notin {"echo", "stopped"} THEN "wedge_receive_routine"
  ELSE IF o.honest # "echo" THEN "honest_peer_affected"
  ELSE IF o.probe # "ok" THEN "wedge_node"
  ELSE IF o.consensus_failure # 0 THEN "consensus_halted"
  ELSE IF o.retained > RetainedBound(o) THEN "retains_more_than_capacity"
  ELSE "none"

\* ------------------------------------------------------------------ expected reaction (level 1), consensus
\* "stop"   : the peer is disconnected (ValidateBasic / decode error / ValidateHeight / caught panic)
\* "keep"   : the peer stays (message applied, queued, answered or ignored)
\* fields checked by the message's ValidateBasic (consensus/reactor.go) / by MsgFromProto
ConsStopFC(k) ==
  CASE k = "NewRoundStep"  -> {"h_neg", "r_neg", "h_zero", "step_zero", "step_max", "lcr_neg2", "lcr_mismatch"}
    [] k = "NewValidBlock" -> {"h_neg", "r_neg", "psh_hash_short", "bits_nil", "bits_zero", "bits_neg", "bits_neg_big",
                               "bits_over_max", "psh_total_zero", "psh_total_max",
                               "bits_elems_missing", "bits_elems_short", "bits_elems_extra"}
    [] k = "Proposal"      -> {"h_neg", "r_neg", "inner_zero", "type_wrong", "pol_lt_m1", "blockid_incomplete", "sig_empty",
                               "sig_long", "psh_total_zero", "psh_total_max", "psh_total_big"}
    [] k = "ProposalPOL"   -> {"h_neg", "bits_nil", "bits_zero", "bits_over_max", "pol_neg", "bits_neg", "bits_neg_big",
                               "bits_elems_missing", "bits_elems_short", "bits_elems_extra"}
    [] k = "BlockPart"     -> {"h_neg", "r_neg", "part_zero", "bytes_oversize", "proof_total_neg", "proof_index_neg",
                               "proof_leaf_short", "proof_aunts_many"}
    [] k = "Vote"          -> {"h_neg", "r_neg", "inner_nil", "type_invalid", "index_neg", "addr_short", "sig_empty",
                               "sig_long", "blockid_incomplete"}
    [] k = "HasVote"       -> {"h_neg", "r_neg", "type_invalid", "index_neg"}
    [] k = "VoteSetMaj23"  -> {"h_neg", "r_neg", "type_invalid", "blockid_hash_short"}
    \* VoteSetBitsMessage.ValidateBasic does not look at Round
    [] k = "VoteSetBits"   -> {"h_neg", "type_invalid", "blockid_hash_short", "bits_over_max", "bits_neg", "bits_neg_big",
                               "bits_elems_missing", "bits_elems_short", "bits_elems_extra"}
    [] k = "Empty"         -> {"no_sum"}
\* node-state dependent: NewRoundStepMessage.ValidateHeight against the chain's initial height (1);
\* the node is at height 1 in these peer-state classes, at height 2 in the others
NodeAtInitialHeight(ps) == ps \in {"fresh", "nrs", "mid", "syncing"}
BitsMismatchFC == {"bits_elems_missing", "bits_elems_short", "bits_elems_extra"}
ConsStops(c) ==
  /\ c.fc \in ConsStopFC(c.kind)
  /\ ~(Weak_BitArrayUnchecked /\ c.fc \in BitsMismatchFC)
  /\ ~(Weak_BitArrayUnchecked /\ c.kind \in {"ProposalPOL", "VoteSetBits"} /\ c.fc = "bits_neg")
  /\ ~(Weak_ProposalTotalUnbounded /\ c.kind = "Proposal" /\ c.fc \in {"psh_total_max", "psh_total_big"})
ExpectCons(c) ==
  IF c.enc # "proto" THEN "any"                \* damaged encodings: decode may or may not succeed
  ELSE IF ConsStops(c) THEN "stop"
  ELSE IF c.kind = "NewRoundStep" /\ c.fc = "h_prev" /\ NodeAtInitialHeight(c.ps) THEN "stop"
  \* HeightVoteSet.SetPeerMaj23 refuses a second, different claim of the same peer ID for the same
  \* (round, type): depends on what this peer ID claimed in earlier cases
  ELSE IF c.kind = "VoteSetMaj23" THEN "any"
  ELSE "keep"

\* What a message that was KEPT does to the node afterwards (the reactor's own goroutines work on the
\* peer state the message wrote).  "none" for every case of the repaired code; the Weak_ switches
\* bring back the two consequences the unrepaired code has:
\*   gossipDataRoutine indexes PRS.ProposalBlockParts (the peer's BitArray) with a part index below
\*   Bits: SetHasProposalBlockPart -> BitArray.setIndex, gossipDataForCatchup -> Not().PickRandom()
\*   -> getTrueIndices: out of range, in a goroutine without recover -> the process dies;
\*   PeerState.SetHasProposal allocates bits.NewBitArray(Total) before any signature check.
Consequence(c) ==
  IF c.reactor # "consensus" \/ c.enc # "proto" \/ ExpectCons(c) # "keep" THEN "none"
  ELSE IF Weak_BitArrayUnchecked /\ c.kind = "NewValidBlock" /\ c.fc = "bits_elems_missing"
          /\ c.ps \in {"nrs", "mid", "behind"} THEN "gossip_routine_panics"
  ELSE IF Weak_ProposalTotalUnbounded /\ c.kind = "Proposal" /\ c.fc \in {"psh_total_max", "psh_total_big"}
          /\ c.ps = "nrs_h2" THEN "allocates_total_bits"
  ELSE "none"

\* ------------------------------------------------------------------ expected reaction, other reactors
\* blockchain/msgs.go ValidateMsg (+ types.BlockFromProto / Block.ValidateBasic for BlockResponse)
BcStopFC(k) ==
  CASE k = "BlockRequest"    -> {"h_neg"}
    [] k = "NoBlockResponse" -> {"h_neg"}
    [] k = "StatusRequest"   -> {}
    [] k = "StatusResponse"  -> {"base_neg", "h_neg", "base_gt_height"}
    [] k = "BlockResponse"   -> {"block_nil", "block_zero", "header_neg_height", "lastcommit_nil", "evidence_bad", "data_huge"}
    [] k = "Empty"           -> {"no_sum"}
ExpectBc(c) ==
  IF c.fc \in BcStopFC(c.kind) THEN "stop"
  \* a block nobody asked for: reported to poolRoutine only while the pool runs (fast sync), and a
  \* block for a height the pool did request from this peer is verified later by poolRoutine
  ELSE IF c.kind = "BlockResponse" /\ c.ps # "fresh_synced" THEN "any"
  ELSE "keep"
\* statesync/messages.go validateMsg
SsStopFC(k) ==
  CASE k = "SnapshotsRequest"  -> {}
    [] k = "SnapshotsResponse" -> {"h_zero", "hash_empty", "chunks_zero"}
    [] k = "ChunkRequest"      -> {"h_zero"}
    [] k = "ChunkResponse"     -> {"h_zero", "missing_with_chunk", "present_nil_chunk"}
    [] k = "Empty"             -> {"no_sum"}
ExpectSs(c) == IF c.fc \in SsStopFC(c.kind) THEN "stop" ELSE "keep"
\* p2p/pex: a third request inside the minimum interval, an address list nobody asked for, an address
\* that p2p.NetAddressFromProto refuses (unparsable IP, port >= 2^16)
ExpectPex(c) ==
  IF c.kind = "Empty" THEN "stop"
  ELSE IF c.kind = "PexRequest" THEN (IF c.fc = "thrice" THEN "stop" ELSE "keep")
  ELSE IF c.ps = "fresh" THEN "stop"
  ELSE IF c.fc \in {"ip_bad", "port_big"} THEN "stop"
  ELSE IF c.fc = "unsolicited" THEN "keep"        \* in peer state "requested" it is the answer
  ELSE "keep"
\* mempool/v0: every decodable Txs message is handed to CheckTx and the peer is kept; a message
\* above the channel's RecvMessageCapacity is refused by the connection
ExpectMem(c) == IF c.kind = "Empty" \/ c.fc = "tx_over_max" THEN "stop" ELSE "keep"
\* evidence: evidenceListFromProto (decode + ValidateBasic) and Pool.AddEvidence -> ErrInvalidEvidence
ExpectEv(c) == IF c.fc = "list_empty" THEN "keep" ELSE "stop"

Expect(c) ==
  IF c.enc # "proto" THEN "any"
  ELSE CASE c.reactor = "consensus"  -> ExpectCons(c)
         [] c.reactor = "blockchain" -> ExpectBc(c)
         [] c.reactor = "statesync"  -> ExpectSs(c)
         [] c.reactor = "pex"        -> ExpectPex(c)
         [] c.reactor = "mempool"    -> ExpectMem(c)
         [] c.reactor = "evidence"   -> ExpectEv(c)
=============================================================================
