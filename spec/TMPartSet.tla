------------------------------ MODULE TMPartSet ------------------------------
(* The block part set of types/part_set.go as a state machine over TMMerkle:
   one AddPart call per step, parts drawn from the genuine parts and every mutated /
   transplanted variant (PartCandidates).                                           *)
EXTENDS TMMerkle

VARIABLES data, slots, act
psvars == <<data, slots, act>>

PSInit == /\ data \in AllLeaves
          /\ slots = [i \in 1..Len(data) |-> Nil]
          /\ act = [name |-> "Init"]

PSAdd(p) == LET r == AddPart([total |-> Len(data), root |-> Root(data)], slots, p) IN
            /\ slots' = r.slots
            /\ data' = data
            /\ act' = [name |-> "AddPart", part |-> p, added |-> r.added, err |-> r.err, pre |-> slots]

PSNext == \E p \in PartCandidates(data) : PSAdd(p)
PSSpec == PSInit /\ [][PSNext]_psvars

PartBinds   == PartBindsAt(data, slots)
Reassembles == Complete(slots) => slots = data
\* a repeated or out-of-order delivery never changes what is held
Idempotent  == [][\A i \in DOMAIN slots : slots[i] # Nil => slots'[i] = slots[i]]_psvars
PSView == <<data, slots>>

=============================================================================
