------------------------------ MODULE TMPartSet ------------------------------
(* The block part set of types/part_set.go as a state machine over TMMerkle:
   one AddPart call per step, parts drawn from the genuine parts and every mutated /
   transplanted variant (PartCandidates).                                           *)
EXTENDS TMMerkle

VARIABLES data, hdr, slots, act
psvars == <<data, hdr, slots, act>>

PSInit == /\ data \in AllLeaves
          /\ hdr \in Headers(data)
          /\ slots = [i \in 1..Len(data) |-> Nil]
          /\ act = [name |-> "Init"]

PSAdd(p) == LET r == AddPart(hdr, slots, p) IN
            /\ slots' = r.slots
            /\ data' = data
            /\ hdr' = hdr
            /\ act' = [name |-> "AddPart", part |-> p, added |-> r.added, err |-> r.err, pre |-> slots]

PSNext == \E p \in PartCandidates(data) \cup HighBitCandidates(data) : PSAdd(p)
PSSpec == PSInit /\ [][PSNext]_psvars

PartBinds   == PartBindsAt(data, slots)
Reassembles == Complete(slots) => slots = data
\* a repeated or out-of-order delivery never changes what is held
Idempotent  == [][\A i \in DOMAIN slots : slots[i] # Nil => slots'[i] = slots[i]]_psvars
\* a completed set hashes to the root it was created for (whoever crafted that root)
CompleteMatchesHeader == Complete(slots) => Root(slots) = hdr.root
\* a slot is filled only by a part whose path authenticates its bytes at that position under the header
AdmitOnlyProven == [][\A i \in DOMAIN slots : (slots[i] = Nil /\ slots'[i] # Nil) =>
                          (act'.part.index = i - 1 /\ PosProven(hdr, act'.part))]_psvars
PSView == <<data, hdr, slots>>

=============================================================================
