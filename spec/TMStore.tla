------------------------------- MODULE TMStore -------------------------------
(* The two persistent stores of a Tendermint node as sequences of SINGLE database writes.

     block store  store/store.go   BlockStore.SaveBlock / PruneBlocks / SaveSeenCommit,
                                   NewBlockStore = LoadBlockStoreState
     state store  state/store.go   dbStore.Save / Bootstrap / SaveABCIResponses / PruneStates,
                                   LoadValidators / LoadConsensusParams

   This module has no variables: every API call is an operator  (cfg, disk, mem, args) |->
   [steps, res]  where steps is the exact ordered list of DB writes the Go code issues
   (batches are flattened in the order the code fills them: the code's own comment says
   batches cannot be trusted to be atomic) interleaved with the updates of the block
   store's in-memory base/height.  A crash keeps any prefix of the writes.  The state
   machine TMStoreNode and the trace specification TMStoreTrace both use these operators.

   cfg describes the chain (it is a value so that the trace spec can take it from a trace):
     lo, hi     height domain of the abstract disk (lo = first height - 1, hi >= tip + 2)
     initial    genesis InitialHeight          boot   0, or the height a state sync restored
     batch      prune flush interval (1000 in the code)
     ckpt       set of checkpoint heights (height % valSetCheckpointInterval = 0)
     nparts     [lo..hi -> Nat]  parts of the block of each height
     vs, ps     [lo..hi -> Int]  identity of the validator set / consensus params IN FORCE at
                                 each height (the ground truth the stores must reproduce)
     chk        subset of {"block","state"}: which halves of the audit apply

   Abstract disk (keys of store.go / state/store.go):
     bss            "blockStore"            [base, height]          (-1,-1 = absent)
     meta[h]        "H:h"                   [blk, total]  blk = id of the block (= its height
                                                          for the chain's block), -1 absent
     part[h]        "P:h:i"                 set of indices present
     commit[h]      "C:h"                   id of the block the commit is for (-1 absent,
     seen[h]        "SC:h"                                    -3 the empty first LastCommit)
     hidx[b]        "BH:<hash of block b>"  height (-1 absent)
     vals[h]        "validatorsKey:h"       [lhc, id]   id -1 = only LastHeightChanged stored
     params[h]      "consensusParamsKey:h"  [lhc, id]   lhc -1 = absent
     abci[h], lastabci, state               ABCI responses, last response, the State record
*)
EXTENDS Integers, Sequences, FiniteSets

CONSTANTS
  Weak_SaveMetaBeforeParts,      \* SaveBlock writes the meta before the parts
  Weak_BSSBeforeData,            \* SaveBlock persists the range descriptor before the block data
  Weak_NoHashIndex,              \* SaveBlock does not write the hash index entry
  Weak_DeleteBeforeBaseMove,     \* PruneBlocks writes a batch of deletes before moving/persisting base
  Weak_IntermediateBaseOffByOne, \* PruneBlocks' intermediate flush persists base = h (just deleted)
                                 \*   instead of h + 1  (the behaviour of v0.34.24, see C18 findings)
  Weak_PruneDropsLastChanged,    \* PruneStates does not keep the LastHeightChanged validator record
                                 \*   (keeps the checkpoint record only)
  Weak_PruneDropsCheckpoint,     \* PruneStates keeps the LastHeightChanged record but not the checkpoint record
  Weak_PruneDropsParamsChanged   \* PruneStates does not keep the LastHeightChanged params record

SetMax(S) == CHOOSE x \in S : \A y \in S : y <= x
Max2(a, b) == IF a >= b THEN a ELSE b
Min2(a, b) == IF a <= b THEN a ELSE b

Dom(cfg)      == cfg.lo .. cfg.hi
InDom(cfg, h) == cfg.lo <= h /\ h <= cfg.hi

NoMeta == [blk |-> -1, total |-> 0]
NoInfo == [lhc |-> -1, id |-> -1]
NoBSS  == [base |-> -1, height |-> -1]
EmptyCommitId == -3        \* LastCommit of the chain's first block (no signatures)

EmptyDisk(cfg) ==
  [bss |-> NoBSS,
   meta   |-> [h \in Dom(cfg) |-> NoMeta],
   part   |-> [h \in Dom(cfg) |-> {}],
   commit |-> [h \in Dom(cfg) |-> -1],
   seen   |-> [h \in Dom(cfg) |-> -1],
   hidx   |-> [h \in Dom(cfg) |-> -1],
   vals   |-> [h \in Dom(cfg) |-> NoInfo],
   params |-> [h \in Dom(cfg) |-> NoInfo],
   abci   |-> [h \in Dom(cfg) |-> FALSE],
   lastabci |-> -1,
   state  |-> -1]

\* ------------------------------------------------------------------ steps
\* One step of an operation: a DB write (t = "w"; del = TRUE for a delete) or an update of
\* the BlockStore's in-memory fields (t = "m": a = base, b = height, set under bs.mtx).  All steps have the same fields.
W(k, h, i, a, b) == [t |-> "w", k |-> k, h |-> h, i |-> i, a |-> a, b |-> b, del |-> FALSE]
D(k, h, i)       == [t |-> "w", k |-> k, h |-> h, i |-> i, a |-> -1, b |-> -1, del |-> TRUE]
M(base, height)  == [t |-> "m", k |-> "mem", h |-> 0, i |-> 0, a |-> base, b |-> height, del |-> FALSE]

Writes(steps) == SelectSeq(steps, LAMBDA s : s.t = "w")

\* the effect of one DB write on the disk; writes to heights outside the modelled domain
\* are ignored (the trace spec reports them as drift)
ApplyWrite(cfg, disk, w) ==
  IF w.k = "bss" THEN [disk EXCEPT !.bss = IF w.del THEN NoBSS ELSE [base |-> w.a, height |-> w.b]]
  ELSE IF w.k = "lastabci" THEN [disk EXCEPT !.lastabci = IF w.del THEN -1 ELSE w.a]
  ELSE IF w.k = "state" THEN [disk EXCEPT !.state = IF w.del THEN -1 ELSE w.a]
  ELSE IF ~InDom(cfg, w.h) THEN disk
  ELSE IF w.k = "meta" THEN [disk EXCEPT !.meta[w.h] = IF w.del THEN NoMeta ELSE [blk |-> w.a, total |-> w.b]]
  ELSE IF w.k = "part" THEN [disk EXCEPT !.part[w.h] = IF w.del THEN @ \ {w.i} ELSE @ \cup {w.i}]
  ELSE IF w.k = "commit" THEN [disk EXCEPT !.commit[w.h] = IF w.del THEN -1 ELSE w.a]
  ELSE IF w.k = "seen" THEN [disk EXCEPT !.seen[w.h] = IF w.del THEN -1 ELSE w.a]
  ELSE IF w.k = "hidx" THEN [disk EXCEPT !.hidx[w.h] = IF w.del THEN -1 ELSE w.a]
  ELSE IF w.k = "vals" THEN [disk EXCEPT !.vals[w.h] = IF w.del THEN NoInfo ELSE [lhc |-> w.a, id |-> w.b]]
  ELSE IF w.k = "params" THEN [disk EXCEPT !.params[w.h] = IF w.del THEN NoInfo ELSE [lhc |-> w.a, id |-> w.b]]
  ELSE IF w.k = "abci" THEN [disk EXCEPT !.abci[w.h] = ~w.del]
  ELSE disk

RECURSIVE ApplyWrites(_, _, _, _, _)
\* apply ws[from..to]  (divide and conquer: journals of long prunes have > 10^4 writes, a
\* linear recursion would overflow TLC's stack)
ApplyWrites(cfg, disk, ws, from, to) ==
  IF from > to THEN disk
  ELSE IF from = to THEN ApplyWrite(cfg, disk, ws[from])
  ELSE LET mid  == (from + to) \div 2
           left == ApplyWrites(cfg, disk, ws, from, mid)
       \* TLC evaluates operator arguments lazily: without the test below the left half would
       \* only be computed on demand from inside the right half, nesting to depth to - from
       IN IF left.state >= -1 THEN ApplyWrites(cfg, left, ws, mid + 1, to) ELSE left

ApplyMem(mem, s) == [base |-> s.a, height |-> s.b]

\* ------------------------------------------------------------------ block store: loading
\* store.go LoadBlockStoreState (incl. the pre-Base compatibility rule)
LoadBSS(disk) ==
  IF disk.bss.height = -1 THEN [base |-> 0, height |-> 0]
  ELSE IF disk.bss.height > 0 /\ disk.bss.base = 0 THEN [base |-> 1, height |-> disk.bss.height]
  ELSE disk.bss

\* store.go LoadBlock: meta, then every part 0..total-1; nil if one is missing
BlockLoads(cfg, disk, h) ==
  /\ InDom(cfg, h)
  /\ disk.meta[h].blk # -1
  /\ \A i \in 0 .. disk.meta[h].total - 1 : i \in disk.part[h]

\* ------------------------------------------------------------------ block store: SaveBlock
LastCommitId(cfg, h) == IF h = cfg.initial THEN EmptyCommitId ELSE h - 1

\* store.go SaveBlock(block h of the chain, its parts, its seen commit)
SaveBlockSteps(cfg, mem, h) ==
  IF mem.base > 0 /\ h # mem.height + 1 THEN [steps |-> << >>, res |-> "panic"]
  ELSE
  LET n      == cfg.nparts[h]
      parts  == [i \in 1 .. n |-> W("part", h, i - 1, h, 0)]
      meta   == << W("meta", h, 0, h, n) >>
      hidx   == IF Weak_NoHashIndex THEN << >> ELSE << W("hidx", h, 0, h, 0) >>
      commit == << W("commit", h - 1, 0, LastCommitId(cfg, h), 0) >>
      seen   == << W("seen", h, 0, h, 0) >>
      nbase  == IF mem.base = 0 THEN h ELSE mem.base
      bss    == << M(nbase, h), W("bss", 0, 0, nbase, h) >>       \* both fields under one lock
      data   == (IF Weak_SaveMetaBeforeParts THEN meta \o parts ELSE parts \o meta)
                \o hidx \o commit \o seen
  IN [steps |-> IF Weak_BSSBeforeData THEN bss \o data ELSE data \o bss, res |-> "ok"]

\* store.go SaveSeenCommit
SaveSeenCommitSteps(h) == [steps |-> << W("seen", h, 0, h, 0) >>, res |-> "ok"]

\* ------------------------------------------------------------------ block store: PruneBlocks
\* the flush closure: move base in memory, persist the range descriptor, THEN write the batch
Flush(memheight, batch, b) ==
  LET mv == << M(b, memheight), W("bss", 0, 0, b, memheight) >> IN
  IF Weak_DeleteBeforeBaseMove THEN batch \o mv ELSE mv \o batch

\* base persisted by the intermediate flush after the deletes of h were added to the batch.
\* v0.34.24 passes h (a height the batch deletes); the repaired code passes h + 1.
FlushBase(h) == IF Weak_IntermediateBaseOffByOne THEN h ELSE h + 1

\* loop body for height h; st = [batch, pruned, out]: open batch, blocks pruned so far, steps flushed
PBBody(cfg, disk, memheight, h, st) ==
  IF ~InDom(cfg, h) \/ disk.meta[h].blk = -1 THEN st        \* "assume already deleted"
  ELSE LET m    == disk.meta[h]
           dels == << D("meta", h, 0), D("hidx", m.blk, 0), D("commit", h, 0), D("seen", h, 0) >>
                   \o [p \in 1 .. m.total |-> D("part", h, p - 1)]
           b2   == st.batch \o dels
       IN IF (st.pruned + 1) % cfg.batch = 0       \* flush every cfg.batch blocks
          THEN [batch |-> << >>, pruned |-> st.pruned + 1, out |-> st.out \o Flush(memheight, b2, FlushBase(h))]
          ELSE [batch |-> b2, pruned |-> st.pruned + 1, out |-> st.out]

RECURSIVE PBLoop(_, _, _, _, _, _)
\* for h := lo; h <= hi; h++  (divide and conquer over the height range, state threaded through)
PBLoop(cfg, disk, memheight, lo, hi, st) ==
  IF lo > hi THEN st
  ELSE IF lo = hi THEN PBBody(cfg, disk, memheight, lo, st)
  ELSE LET mid == (lo + hi) \div 2
           L   == PBLoop(cfg, disk, memheight, lo, mid, st)
       IN IF L.pruned >= 0 THEN PBLoop(cfg, disk, memheight, mid + 1, hi, L) ELSE L    \* (test forces L first)

\* store.go PruneBlocks(to): removes [base, to)
PruneBlocksSteps(cfg, disk, mem, to) ==
  IF to <= 0 \/ to > mem.height \/ to < mem.base THEN [steps |-> << >>, res |-> "err"]
  ELSE LET st == PBLoop(cfg, disk, mem.height, mem.base, to - 1, [batch |-> << >>, pruned |-> 0, out |-> << >>]) IN
       [steps |-> st.out \o Flush(mem.height, st.batch, to), res |-> "ok"]

\* ------------------------------------------------------------------ state store: loading
CkptOf(cfg, h) == LET S == {c \in cfg.ckpt : c <= h} IN IF S = {} THEN 0 ELSE SetMax(S)
\* state/store.go lastStoredHeightFor
LastStored(cfg, h, lhc) == Max2(CkptOf(cfg, h), lhc)

\* state/store.go LoadValidators: id of the validator set returned, -1 = error
LoadVals(cfg, disk, h) ==
  IF ~InDom(cfg, h) \/ disk.vals[h].lhc = -1 THEN -1
  ELSE IF disk.vals[h].id # -1 THEN disk.vals[h].id
  ELSE LET s == LastStored(cfg, h, disk.vals[h].lhc) IN
       IF ~InDom(cfg, s) \/ disk.vals[s].lhc = -1 \/ disk.vals[s].id = -1 THEN -1
       ELSE disk.vals[s].id

\* state/store.go LoadConsensusParams: [err, id]; the code does NOT check that the record its
\* LastHeightChanged points to holds params: it then returns empty params (id -1) without error
LoadParams(cfg, disk, h) ==
  IF ~InDom(cfg, h) \/ disk.params[h].lhc = -1 THEN [err |-> TRUE, id |-> -1]
  ELSE IF disk.params[h].id # -1 THEN [err |-> FALSE, id |-> disk.params[h].id]
  ELSE LET s == disk.params[h].lhc IN
       IF ~InDom(cfg, s) \/ disk.params[s].lhc = -1 THEN [err |-> TRUE, id |-> -1]
       ELSE [err |-> FALSE, id |-> disk.params[s].id]

\* ------------------------------------------------------------------ state store: saving
\* state/store.go save(state): lbh = state.LastBlockHeight (0 = genesis state), lhvc / lhpc =
\* state.LastHeightValidatorsChanged / LastHeightConsensusParamsChanged
SaveSteps(cfg, lbh, lhvc, lhpc) ==
  LET nh   == IF lbh + 1 = 1 THEN cfg.initial ELSE lbh + 1
      gen  == IF lbh + 1 = 1 THEN << W("vals", nh, 0, nh, cfg.vs[nh]) >> ELSE << >>
      full == (nh + 1 = lhvc) \/ (nh + 1 \in cfg.ckpt)
      nv   == << W("vals", nh + 1, 0, lhvc, IF full THEN cfg.vs[nh + 1] ELSE -1) >>
      pr   == << W("params", nh, 0, lhpc, IF lhpc = nh THEN cfg.ps[nh] ELSE -1) >>
  IN IF lhvc > nh + 1            \* saveValidatorsInfo: lastHeightChanged > height is an error
     THEN [steps |-> gen, res |-> "err"]
     ELSE [steps |-> gen \o nv \o pr \o << W("state", 0, 0, lbh, 0) >>, res |-> "ok"]

\* state/store.go SaveABCIResponses (DiscardABCIResponses = false)
SaveABCISteps(h) == [steps |-> << W("abci", h, 0, 1, 0), W("lastabci", 0, 0, h, 0) >>, res |-> "ok"]

\* state/store.go Bootstrap(state) with state.LastBlockHeight = h0 (statesync: lhpc = h0 + 1)
BootstrapSteps(cfg, h0, lhpc) ==
  LET h == IF h0 + 1 = 1 THEN cfg.initial ELSE h0 + 1 IN
  [steps |-> (IF h > 1 /\ InDom(cfg, h - 1) THEN << W("vals", h - 1, 0, h - 1, cfg.vs[h - 1]) >> ELSE << >>)
             \o << W("vals", h, 0, h, cfg.vs[h]), W("vals", h + 1, 0, h + 1, cfg.vs[h + 1]),
                   W("params", h, 0, lhpc, IF lhpc = h THEN cfg.ps[h] ELSE -1),
                   W("state", 0, 0, h0, 0) >>,
   res |-> "ok"]

\* ------------------------------------------------------------------ state store: PruneStates
KeepVals(cfg, disk, to) ==
  IF disk.vals[to].id # -1 THEN {}
  ELSE LET lhc == disk.vals[to].lhc
            ck  == CkptOf(cfg, to) IN
       \* the code keeps lhc and lastStoredHeightFor(to, lhc) = max(checkpoint, lhc)
       (IF Weak_PruneDropsLastChanged THEN {} ELSE {lhc})
       \cup (IF Weak_PruneDropsCheckpoint THEN {}
             ELSE IF Weak_PruneDropsLastChanged THEN {ck} \ {0, lhc}
             ELSE {LastStored(cfg, to, lhc)})
KeepParams(cfg, disk, to) ==
  IF disk.params[to].id # -1 \/ Weak_PruneDropsParamsChanged THEN {} ELSE {disk.params[to].lhc}

\* the writes the loop body adds to the batch for height h, or an error return
PSGroup(cfg, disk, keepV, keepP, h) ==
  LET v  == disk.vals[h]
      p  == disk.params[h]
      lv == LoadVals(cfg, disk, h)
      lp == LoadParams(cfg, disk, h)
      verr == h \in keepV /\ (v.lhc = -1 \/ v.id = -1) /\ lv = -1
      perr == h \in keepP /\ (p.lhc = -1 \/ (p.id = -1 /\ lp.err))
      vw == IF h \in keepV
            THEN (IF v.lhc = -1 \/ v.id = -1 THEN << W("vals", h, 0, h, lv) >> ELSE << >>)
            ELSE << D("vals", h, 0) >>
      pw == IF h \in keepP
            THEN (IF p.id = -1 THEN << W("params", h, 0, h, lp.id) >> ELSE << >>)
            ELSE << D("params", h, 0) >>
  IN IF verr THEN [err |-> TRUE, steps |-> << >>]
     ELSE IF perr THEN [err |-> TRUE, steps |-> << >>]
     ELSE [err |-> FALSE, steps |-> vw \o pw \o << D("abci", h, 0) >>]

\* loop body for height h; st = [err, pruned, flushed, batch]
PSBody(cfg, disk, keepV, keepP, h, st) ==
  IF st.err THEN st
  ELSE LET g == PSGroup(cfg, disk, keepV, keepP, h) IN
       IF g.err THEN [st EXCEPT !.err = TRUE]                 \* return err: the open batch is dropped
       ELSE IF (st.pruned + 1) % cfg.batch = 0                \* batch.Write() every cfg.batch heights
            THEN [err |-> FALSE, pruned |-> st.pruned + 1, flushed |-> st.flushed \o st.batch \o g.steps, batch |-> << >>]
            ELSE [err |-> FALSE, pruned |-> st.pruned + 1, flushed |-> st.flushed, batch |-> st.batch \o g.steps]

RECURSIVE PSLoop(_, _, _, _, _, _, _)
\* for h := hi; h >= lo; h--  (descending; divide and conquer, state threaded through)
PSLoop(cfg, disk, keepV, keepP, lo, hi, st) ==
  IF lo > hi THEN st
  ELSE IF lo = hi THEN PSBody(cfg, disk, keepV, keepP, lo, st)
  ELSE LET mid == (lo + hi) \div 2
           U   == PSLoop(cfg, disk, keepV, keepP, mid + 1, hi, st)
       IN IF U.pruned >= 0 THEN PSLoop(cfg, disk, keepV, keepP, lo, mid, U) ELSE U     \* (test forces U first)

\* state/store.go PruneStates(from, to): removes [from, to) except what `to` still points to
PruneStatesSteps(cfg, disk, from, to) ==
  IF from <= 0 \/ to <= 0 \/ from >= to THEN [steps |-> << >>, res |-> "err"]
  ELSE IF ~InDom(cfg, to) \/ ~InDom(cfg, from) THEN [steps |-> << >>, res |-> "err"]
  ELSE IF disk.vals[to].lhc = -1 \/ disk.params[to].lhc = -1 THEN [steps |-> << >>, res |-> "err"]
  ELSE LET st == PSLoop(cfg, disk, KeepVals(cfg, disk, to), KeepParams(cfg, disk, to), from, to - 1,
                       [err |-> FALSE, pruned |-> 0, flushed |-> << >>, batch |-> << >>]) IN
       IF st.err THEN [steps |-> st.flushed, res |-> "err"]
       ELSE [steps |-> st.flushed \o st.batch, res |-> "ok"]

\* ------------------------------------------------------------------ projection (the audit's view)
\* What the loaders of both stores return for height h, as the Go audit records it.  Ids
\* that name heights are made relative to h (so that equal situations at different heights
\* give equal records); absent / unknown / empty-commit ids -1 / -2 / -3 become -1000001.. .
Rel(x, h) == IF x < 0 THEN x - 1000000 ELSE x - h
RelNil == -1000001

Proj(cfg, disk, h) ==
  LET m   == disk.meta[h]
      bid == IF m.blk # -1 THEN m.blk ELSE h       \* block id commits are verified against
      x   == disk.hidx[h]
      lp  == LoadParams(cfg, disk, h)
  IN [meta   |-> Rel(m.blk, h),                    \* LoadBlockMeta: which block it describes
      total  |-> m.total,
      parts  |-> Cardinality(disk.part[h]),        \* loadable parts
      block  |-> IF BlockLoads(cfg, disk, h) THEN "ok" ELSE "nil",    \* LoadBlock, hashes to meta.BlockID
      hidx   |-> Rel(x, h),                        \* raw hash-index entry of the chain's block h
      byhash |-> IF x = -1 \/ ~BlockLoads(cfg, disk, x) THEN "nil"    \* LoadBlockByHash
                 ELSE IF disk.meta[x].blk = h THEN "ok" ELSE "bad",
      cblk   |-> Rel(disk.commit[h], h),           \* LoadBlockCommit: block it is for
      cver   |-> disk.commit[h] >= 0 /\ disk.commit[h] = bid,          \* VerifyCommit passes
      sblk   |-> Rel(disk.seen[h], h),             \* LoadSeenCommit
      sver   |-> disk.seen[h] >= 0 /\ disk.seen[h] = bid,
      vlhc   |-> disk.vals[h].lhc,                 \* raw ValidatorsInfo (-1 absent)
      vfull  |-> disk.vals[h].id,
      vload  |-> LoadVals(cfg, disk, h),           \* LoadValidators: id of the set, -1 error
      plhc   |-> disk.params[h].lhc,
      pfull  |-> disk.params[h].id,
      pload  |-> IF lp.err THEN -1 ELSE IF lp.id = -1 THEN -2 ELSE lp.id,   \* -2: empty params returned
      abci   |-> disk.abci[h]]

\* ------------------------------------------------------------------ the property (C18)
\* A projection p that holds for every height of a..b (a <= b) satisfies the statement
\* w.r.t. the range descriptor [base, height]  (base <= a, b <= height)
RangeHolds(cfg, p, a, b, height) ==
  /\ "block" \in cfg.chk =>
        /\ p.meta = 0 /\ p.total >= 1 /\ p.parts >= p.total /\ p.block = "ok"
        /\ p.hidx = 0 /\ p.byhash = "ok"
        /\ a < height => (p.cblk = 0 /\ p.cver)           \* the commit for it ...
        /\ b = height => (p.sblk = 0 /\ p.sver)           \* ... for the tip the seen commit
  /\ "state" \in cfg.chk =>
        /\ \A h \in {a, b} : p.vload = cfg.vs[h]          \* cfg.vs, cfg.ps are monotone
        /\ \A h \in {a, b} : p.pload = cfg.ps[h]

\* which part of the statement fails first (used to classify violations)
FailClass(cfg, p, a, b, height) ==
  IF "block" \in cfg.chk /\ p.meta # 0 THEN "meta"
  ELSE IF "block" \in cfg.chk /\ (p.total < 1 \/ p.parts < p.total) THEN "parts"
  ELSE IF "block" \in cfg.chk /\ p.block # "ok" THEN "block"
  ELSE IF "block" \in cfg.chk /\ (p.hidx # 0 \/ p.byhash # "ok") THEN "hashindex"
  ELSE IF "block" \in cfg.chk /\ a < height /\ ~(p.cblk = 0 /\ p.cver) THEN "commit"
  ELSE IF "block" \in cfg.chk /\ b = height /\ ~(p.sblk = 0 /\ p.sver) THEN "seencommit"
  ELSE IF "state" \in cfg.chk /\ (\E h \in {a, b} : p.vload # cfg.vs[h]) THEN "validators"
  ELSE IF "state" \in cfg.chk /\ (\E h \in {a, b} : p.pload # cfg.ps[h]) THEN "params"
  ELSE "none"

BSSRangeOK(r) == (r.base = 0 /\ r.height = 0) \/ (1 <= r.base /\ r.base <= r.height)

\* Audit of an abstract disk against a range descriptor r (the persisted one after a
\* reopen, the in-memory one for a live store)
AuditDisk(cfg, disk, r) ==
  /\ BSSRangeOK(r)
  /\ \A h \in Dom(cfg) : (r.base <= h /\ h <= r.height /\ r.height > 0) =>
        RangeHolds(cfg, Proj(cfg, disk, h), h, h, r.height)

\* store.go LoadBlock NOTE: "the existence of meta should imply the existence of the block"
MetaImpliesBlockAt(p) == p.meta # RelNil => p.block = "ok"
MetaImpliesBlock(cfg, disk) == \A h \in Dom(cfg) : MetaImpliesBlockAt(Proj(cfg, disk, h))

\* nothing of a block-store height is left
BlockGone(p) == p.meta = RelNil /\ p.parts = 0 /\ p.hidx = RelNil /\ p.cblk = RelNil /\ p.sblk = RelNil /\ p.block = "nil"

\* a completed PruneBlocks(to) started at base ob removed exactly [ob, to)
PruneExactBlocks(cfg, disk, r, ob, to) ==
  /\ r.base = to
  /\ \A h \in Dom(cfg) : (ob <= h /\ h < to) => BlockGone(Proj(cfg, disk, h))

\* heights below `to` that a retained height (>= to) still resolves through, in disk d0
\* (both the LastHeightChanged record and the checkpoint record: PruneStates' documented contract)
NeededVals(cfg, d0, to) ==
  LET P == {x \in Dom(cfg) : x >= to /\ d0.vals[x].lhc # -1 /\ d0.vals[x].id = -1} IN
  {LastStored(cfg, h, d0.vals[h].lhc) : h \in P} \cup {d0.vals[h].lhc : h \in P}
NeededParams(cfg, d0, to) ==
  {d0.params[h].lhc : h \in {x \in Dom(cfg) : x >= to /\ d0.params[x].lhc # -1 /\ d0.params[x].id = -1}}
=============================================================================
