---------------------------- MODULE TMMempoolOps ----------------------------
(* C12 -- the mempool of tendermint v0.34: v0 (mempool/v0/clist_mempool.go, CListMempool)
   and v1 (mempool/v1/mempool.go, TxMempool), with the LRU transaction cache of
   mempool/cache.go, as OPERATORS over values:

        Op(cfg, s, args)  ->  [st |-> s', res |-> result]

   so that the design state machine (TMMempool.tla) and the trace specification
   (trace/TMMempoolTrace.tla, which judges behaviour OBSERVED on the real code) reuse the
   very same step logic.  No VARIABLES here.

   cfg : [version, size, maxTxsBytes, maxTxBytes, cacheSize, keepInvalid, recheck, ttl,
          txsize]                         config.MempoolConfig + the byte length of each tx
   s   : the mempool state, a record
     pool     sequence (list order = arrival order; clist `txs`) of entries
              [tx, size, gas, prio, sender, height, peers]      mempoolTx / WrappedTx
     index    function  tx key -> position in pool             txsMap (v0) / txByKey (v1)
     bytes    the byte counter                                  txsBytes
     cache    LRU list of tx keys, front = oldest               LRUTxCache.list
     height   height of the last Update                         mem.height
     inflight ABCI CheckTx requests sent and not yet answered   [tx, kind, peer, h, gas]
              kind "new" (first-time check) / "recheck"; v0: FIFO (one ABCI connection,
              responses arrive in request order); v1: answered in any order (every
              CheckTxSync caller is its own goroutine); h = height captured at admit (v1);
              kind "adding" (+ gas) exists only under Weak_NonAtomicAdmission: a v0 response
              that passed its checks and has not inserted yet
     rcur,rend  v0 only: recheckCursor / recheckEnd as pool positions, 0 = nil
     pre, post  installed filters: PreCheckMaxBytes(pre) / PostCheckMaxGas(post), -1 = none
                                                                (state/tx_filter.go)
     rcache   GHOST: the cache as SPECIFIED (what "remembered" means in the property); it
              evolves by the unweakened rules, `cache` is what the implementation does
     gone     GHOST: txs committed in a block and remembered (in rcache) ever since
     stale    GHOST: txs with a first-time check outstanding while a block committed them
     late     GHOST: txs in the pool that were inserted by such a stale response (v1 only:
              CheckTxSync runs outside the lock, so Update can fall between the cache check
              and addNewTransaction -- the named deviation "response after commit")

   Weak_* : each weakens exactly one guard the way a plausible regression would.
   Weak_NoDupCheckOnInsert and Weak_ReapOffByOne are the behaviour of the code BEFORE the
   proposed fixes (DESIGN.md section 8, S4 and S3).                                     *)
EXTENDS Integers, Sequences, FiniteSets, SequencesExt, TLC

CONSTANTS Weak_NoDupCheckOnInsert,      \* insert without looking at the key index (S4)
          Weak_ReapOffByOne,            \* ReapMaxTxs loop condition `<=` (S3)
          Weak_FullCheckOnlyOnAdmit,    \* no second isFull / canAddTx when the response arrives
          Weak_EvictWithoutBytes,       \* a removal that forgets to decrease txsBytes
          Weak_CacheNotUpdatedOnCommit, \* Update does not push committed txs to the cache
          Weak_RecheckKeepsRejected,    \* a rejected recheck leaves the tx in the pool
          Weak_VarintBoundaryOffByOne,  \* the reap loops size a tx with a varint-length loop `l > 0x80`
                                        \* instead of `l >= 0x80`: one byte short at lengths whose
                                        \* 7-bit shifts hit 128 (128, 16384..16511, 2097152..2113535)
          Weak_NonAtomicAdmission       \* v0: the checks of resCbFirstTime and its addTx are not one
                                        \* critical section (the code before the proposed admission
                                        \* mutex, when callbacks run on the callers' goroutines, i.e.
                                        \* with the local ABCI client)

NoneV == -1                              \* "no filter installed"

(* The byte limit of a reap is a fact about the protobuf ENCODING of the reaped txs
   (tmproto.Data{Txs}): every tx costs 1 tag byte + varint(len) + len bytes, and the varint
   of the length grows by one byte at 2^7, 2^14, 2^21, ... (types.ComputeProtoSizeForTxs).
   VarintLen is that rule as the loop the code runs (`for l >= 0x80 { l >>= 7; n++ }`);
   `weak` is the boundary regression `l > 0x80`.                                          *)
RECURSIVE VarintLen(_, _)
VarintLen(l, weak) == IF (weak /\ l > 128) \/ (~weak /\ l >= 128) THEN 1 + VarintLen(l \div 128, weak) ELSE 1

\* the encoded size (the property's and PreCheckMaxBytes' measure)
ProtoSize(n) == 1 + VarintLen(n, FALSE) + n
\* the size the reap loops of the implementation account for
ImplProtoSize(n) == 1 + VarintLen(n, Weak_VarintBoundaryOffByOne) + n

EmptyState(h, pre, post) ==
  [pool |-> << >>, index |-> << >>, bytes |-> 0, cache |-> << >>, height |-> h,
   inflight |-> << >>, rcur |-> 0, rend |-> 0, pre |-> pre, post |-> post,
   rcache |-> << >>, gone |-> {}, stale |-> {}, late |-> {}]

Keys(pool) == {pool[i].tx : i \in DOMAIN pool}

MinOf(S) == CHOOSE x \in S : \A y \in S : x <= y

RECURSIVE SumSizeSet(_, _)
SumSizeSet(pool, P) == IF P = {} THEN 0
                       ELSE LET p == CHOOSE x \in P : TRUE IN pool[p].size + SumSizeSet(pool, P \ {p})

\* sums over the first k elements of the position sequence ps
RECURSIVE SumSizeAt(_, _, _)
SumSizeAt(pool, ps, k) == IF k = 0 THEN 0 ELSE pool[ps[k]].size + SumSizeAt(pool, ps, k - 1)
RECURSIVE SumPSizeAt(_, _, _)
SumPSizeAt(pool, ps, k) == IF k = 0 THEN 0 ELSE ProtoSize(pool[ps[k]].size) + SumPSizeAt(pool, ps, k - 1)
RECURSIVE SumImplPSizeAt(_, _, _)
SumImplPSizeAt(pool, ps, k) == IF k = 0 THEN 0 ELSE ImplProtoSize(pool[ps[k]].size) + SumImplPSizeAt(pool, ps, k - 1)
RECURSIVE SumGasAt(_, _, _)
SumGasAt(pool, ps, k) == IF k = 0 THEN 0 ELSE pool[ps[k]].gas + SumGasAt(pool, ps, k - 1)

Positions(pool) == [i \in 1..Len(pool) |-> i]

-----------------------------------------------------------------------------
(* mempool/cache.go LRUTxCache (NopTxCache when cacheSize = 0) *)
CachePush(c, cap, tx) ==
  IF cap = 0 THEN [c |-> c, new |-> TRUE]                       \* NopTxCache.Push
  ELSE IF Contains(c, tx) THEN [c |-> Append(Remove(c, tx), tx), new |-> FALSE]   \* MoveToBack
  ELSE [c |-> Append(IF Len(c) >= cap /\ Len(c) > 0 THEN Tail(c) ELSE c, tx), new |-> TRUE]

PushBoth(cfg, s, tx) == [s EXCEPT !.cache  = CachePush(@, cfg.cacheSize, tx).c,
                                  !.rcache = CachePush(@, cfg.cacheSize, tx).c]
RemBoth(s, tx)  == [s EXCEPT !.cache = Remove(@, tx), !.rcache = Remove(@, tx)]
RECURSIVE RemBothSet(_, _)
RemBothSet(s, T) == IF T = {} THEN s ELSE LET t == CHOOSE x \in T : TRUE IN RemBothSet(RemBoth(s, t), T \ {t})

\* every operator ends with this: a committed tx stays in `gone` only while remembered
NewInflight(s) == {s.inflight[i].tx : i \in {j \in DOMAIN s.inflight : s.inflight[j].kind = "new"}}
Fin(s) == [s EXCEPT !.gone  = {t \in @ : Contains(s.rcache, t)},
                    !.stale = @ \cap NewInflight(s),
                    !.late  = @ \cap {s.pool[i].tx : i \in DOMAIN s.pool}]

-----------------------------------------------------------------------------
(* pool primitives *)
InPool(s, tx) == tx \in DOMAIN s.index /\ s.index[tx] \in 1..Len(s.pool)

\* isFull (v0) / canAddTx (v1): uses the list length and the byte COUNTER
IsFull(cfg, s, sz) == Len(s.pool) >= cfg.size \/ sz + s.bytes > cfg.maxTxsBytes

PreOK(s, sz)   == s.pre = NoneV \/ ProtoSize(sz) <= s.pre        \* mempool.PreCheckMaxBytes
PostOK(s, gas) == s.post = NoneV \/ (gas >= 0 /\ gas <= s.post)  \* mempool.PostCheckMaxGas
Accepted(s, v) == v.ok /\ PostOK(s, v.gas)

AddPeer(s, tx, peer) == IF InPool(s, tx) THEN [s EXCEPT !.pool[s.index[tx]].peers = @ \cup {peer}] ELSE s

\* addTx (v0) / insertTx (v1): PushBack, index[key] := new element (OVERWRITES), bytes += size
Insert(s, e) ==
  [s EXCEPT !.pool  = Append(@, e),
            !.index = [k \in (DOMAIN s.index) \cup {e.tx} |-> IF k = e.tx THEN Len(s.pool) + 1 ELSE s.index[k]],
            !.bytes = @ + e.size]

\* removeTx (v0) / removeTxByElement (v1) for every position in P: the list element goes, the
\* KEY of its tx is deleted from the index (whichever element the index pointed to), and the
\* byte counter decreases (adj)
DropSet(s, P, adj) ==
  LET n    == Len(s.pool)
      kp   == SelectSeq(Positions(s.pool), LAMBDA i : i \notin P)
      gonek == {s.pool[p].tx : p \in P}
      np(p) == p - Cardinality({q \in P : q < p})
  IN [s EXCEPT !.pool  = [j \in 1..Len(kp) |-> s.pool[kp[j]]],
               !.index = [k \in (DOMAIN s.index) \ gonek |->
                             IF s.index[k] \in 1..n THEN np(s.index[k]) ELSE s.index[k]],
               !.bytes = IF adj THEN @ - SumSizeSet(s.pool, P) ELSE @]
DropAt(s, p) == DropSet(s, {p}, TRUE)

-----------------------------------------------------------------------------
(* CheckTx, first half: everything up to handing the tx to the application.
   v0 CListMempool.CheckTx: isFull, MaxTxBytes, preCheck, cache.Push, CheckTxAsync
   v1 TxMempool.CheckTx (closure under RLock): MaxTxBytes, preCheck, cache.Push          *)
Admit(cfg, s, tx, peer) ==
  LET sz == cfg.txsize[tx] IN
  IF cfg.version = "v0" /\ IsFull(cfg, s, sz) THEN [st |-> s, res |-> "full"]
  ELSE IF sz > cfg.maxTxBytes THEN [st |-> s, res |-> "toolarge"]
  ELSE IF ~PreOK(s, sz) THEN [st |-> s, res |-> "precheck"]
  ELSE IF ~CachePush(s.cache, cfg.cacheSize, tx).new
       THEN \* seen before: only record the new sender if the tx is (still) in the pool
            [st |-> Fin(AddPeer(PushBoth(cfg, s, tx), tx, peer)), res |-> "incache"]
       ELSE [st |-> Fin([PushBoth(cfg, s, tx) EXCEPT !.inflight =
                           Append(@, [tx |-> tx, kind |-> "new", peer |-> peer,
                                      h |-> IF cfg.version = "v1" THEN s.height ELSE 0, gas |-> 0])]),
             res |-> "ok"]

NewEntry(cfg, s, rq, v) ==
  [tx |-> rq.tx, size |-> cfg.txsize[rq.tx], gas |-> v.gas,
   prio   |-> IF cfg.version = "v1" THEN v.prio ELSE 0,
   sender |-> IF cfg.version = "v1" THEN v.sender ELSE "",
   height |-> IF cfg.version = "v1" THEN rq.h ELSE s.height,   \* v0: mem.height at response time
   peers  |-> {rq.peer}]

(* v0 resCbFirstTime (via reqResCb): the response to the OLDEST outstanding request (the
   oldest one that is not already past its checks, see Weak_NonAtomicAdmission) *)
FirstLive(s) == LET L == {i \in DOMAIN s.inflight : s.inflight[i].kind # "adding"}
                IN IF L = {} THEN 0 ELSE MinOf(L)

ResponseV0(cfg, s, v) ==
  LET i  == FirstLive(s)
      rq == s.inflight[i]
      tx == rq.tx
      s1 == [s EXCEPT !.inflight = RemoveAt(@, i)]
  IN IF Accepted(s, v) THEN
        IF ~Weak_FullCheckOnlyOnAdmit /\ IsFull(cfg, s1, cfg.txsize[tx])
        THEN [st |-> Fin(RemBoth(s1, tx)), res |-> "full"]           \* "mempool might have a space later"
        ELSE IF ~Weak_NoDupCheckOnInsert /\ InPool(s1, tx)
        THEN [st |-> Fin(AddPeer(s1, tx, rq.peer)), res |-> "dup"]   \* proposed fix for S4
        ELSE IF Weak_NonAtomicAdmission
        THEN [st |-> Fin([s EXCEPT !.inflight[i].kind = "adding", !.inflight[i].gas = v.gas]), res |-> "checked"]
        ELSE [st |-> Fin(Insert(s1, NewEntry(cfg, s1, rq, v))), res |-> "added"]
     ELSE [st |-> Fin(IF cfg.keepInvalid THEN s1 ELSE RemBoth(s1, tx)), res |-> "rejected"]

\* only under Weak_NonAtomicAdmission: the addTx of a response whose checks ran earlier
InsertV0(cfg, s, i) ==
  LET rq == s.inflight[i]
      s1 == [s EXCEPT !.inflight = RemoveAt(@, i)]
  IN [st |-> Fin(Insert(s1, NewEntry(cfg, s1, rq, [gas |-> rq.gas, prio |-> 0, sender |-> ""]))), res |-> "added"]

(* v1 addNewTransaction: the response to ANY outstanding first-time request i *)
\* victims sorted: lowest priority first, ties: newer (later position) first
VictimOrder(pool, prio) ==
  SortSeq(SelectSeq(Positions(pool), LAMBDA p : pool[p].prio < prio),
          LAMBDA a, b : pool[a].prio < pool[b].prio \/ (pool[a].prio = pool[b].prio /\ a > b))

MarkLate(s0, s2, tx) == IF tx \in s0.stale THEN [s2 EXCEPT !.late = @ \cup {tx}] ELSE s2

ResponseV1(cfg, s, i, v) ==
  LET rq == s.inflight[i]
      tx == rq.tx
      sz == cfg.txsize[tx]
      s1 == [s EXCEPT !.inflight = RemoveAt(@, i)]
      e  == NewEntry(cfg, s1, rq, v)
  IN IF ~Accepted(s, v)
     THEN [st |-> Fin(IF cfg.keepInvalid THEN s1 ELSE RemBoth(s1, tx)), res |-> "rejected"]
     ELSE IF ~Weak_NoDupCheckOnInsert /\ InPool(s1, tx)
     THEN [st |-> Fin(AddPeer(s1, tx, rq.peer)), res |-> "dup"]      \* proposed fix for S4
     ELSE IF v.sender # "" /\ \E p \in DOMAIN s1.pool : s1.pool[p].sender = v.sender
     THEN [st |-> Fin(s1), res |-> "samesender"]                      \* stays in the cache
     ELSE IF ~Weak_FullCheckOnlyOnAdmit /\ IsFull(cfg, s1, sz)
     THEN LET vs == VictimOrder(s1.pool, v.prio)
              vb == SumSizeAt(s1.pool, vs, Len(vs))
          IN IF Len(vs) = 0 \/ vb < sz
             THEN [st |-> Fin(RemBoth(s1, tx)), res |-> "full"]
             ELSE LET k  == MinOf({j \in 1..Len(vs) : SumSizeAt(s1.pool, vs, j) >= sz})
                      P  == {vs[j] : j \in 1..k}
                      s2 == RemBothSet(DropSet(s1, P, ~Weak_EvictWithoutBytes), {s1.pool[p].tx : p \in P})
                  IN [st |-> Fin(MarkLate(s, Insert(s2, e), tx)), res |-> "added_evicting"]
     ELSE [st |-> Fin(MarkLate(s, Insert(s1, e), tx)), res |-> "added"]

-----------------------------------------------------------------------------
(* Update(height, txs, deliverTxResponses, preCheck, postCheck); the caller holds Lock().
   npre / npost = -2: nil argument, the installed filter stays.                          *)
KeepF == -2

UpdOne(cfg, s, tx, ok) ==
  LET s1 == IF ok THEN (IF Weak_CacheNotUpdatedOnCommit
                        THEN [s EXCEPT !.rcache = CachePush(@, cfg.cacheSize, tx).c]
                        ELSE PushBoth(cfg, s, tx))
            ELSE IF ~cfg.keepInvalid THEN RemBoth(s, tx) ELSE s
  IN IF InPool(s1, tx) THEN DropAt(s1, s1.index[tx]) ELSE s1

RECURSIVE UpdFold(_, _, _, _, _)
UpdFold(cfg, s, txs, oks, i) ==
  IF i > Len(txs) THEN s ELSE UpdFold(cfg, UpdOne(cfg, s, txs[i], oks[i]), txs, oks, i + 1)

\* v1 purgeExpiredTxs (height based only; TTLDuration is not modelled)
Purge(cfg, s, h) ==
  IF cfg.version = "v1" /\ cfg.ttl > 0
  THEN LET P == {p \in DOMAIN s.pool : h - s.pool[p].height > cfg.ttl}
       IN RemBothSet(DropSet(s, P, ~Weak_EvictWithoutBytes), {s.pool[p].tx : p \in P})
  ELSE s

Update(cfg, s, h, txs, oks, npre, npost) ==
  LET s1 == Purge(cfg, UpdFold(cfg, s, txs, oks, 1), h)
      s2 == [s1 EXCEPT !.height = h,
                       !.pre  = IF npre  = KeepF THEN @ ELSE npre,
                       !.post = IF npost = KeepF THEN @ ELSE npost,
                       !.gone = @ \cup ToSet(txs),
                       !.stale = @ \cup (ToSet(txs) \cap NewInflight(s))]
      rq == [p \in 1..Len(s2.pool) |-> [tx |-> s2.pool[p].tx, kind |-> "recheck", peer |-> 0, h |-> 0, gas |-> 0]]
      s3 == IF Len(s2.pool) > 0 /\ cfg.recheck
            THEN [s2 EXCEPT !.inflight = @ \o rq,
                            !.rcur = IF cfg.version = "v0" THEN 1 ELSE 0,
                            !.rend = IF cfg.version = "v0" THEN Len(s2.pool) ELSE 0]
            ELSE s2
  IN [st |-> Fin(s3), res |-> "ok"]

(* v0 resCbRecheck (via globalCb): response to the oldest outstanding request, a recheck *)
RecheckV0(cfg, s, v) ==
  LET rq == Head(s.inflight)
      tx == rq.tx
      s1 == [s EXCEPT !.inflight = Tail(@)]
      C  == {p \in s.rcur..s.rend : p \in DOMAIN s.pool /\ s.pool[p].tx = tx}
      m  == IF s.rcur = 0 \/ C = {} THEN 0 ELSE MinOf(C)
      done(x) == [x EXCEPT !.rcur = 0, !.rend = 0]
  IN IF s.rcur = 0 THEN [st |-> Fin(s1), res |-> "ignored"]          \* globalCb: cursor nil
     ELSE IF m = 0 THEN [st |-> Fin(done(s1)), res |-> "mismatch"]   \* ran off recheckEnd
     ELSE IF Accepted(s, v) \/ Weak_RecheckKeepsRejected
     THEN [st |-> Fin(IF m = s.rend THEN done(s1) ELSE [s1 EXCEPT !.rcur = m + 1]),
           res |-> IF Accepted(s, v) THEN "kept" ELSE "kept_rejected"]
     ELSE LET s2 == DropAt(s1, m)
              s3 == IF cfg.keepInvalid THEN s2 ELSE RemBoth(s2, tx)
          IN [st |-> Fin(IF m = s.rend THEN done(s3) ELSE [s3 EXCEPT !.rcur = m, !.rend = s.rend - 1]),
              res |-> "removed"]

(* v1 handleRecheckResult: response to ANY outstanding recheck request i *)
RecheckV1(cfg, s, i, v) ==
  LET rq == s.inflight[i]
      tx == rq.tx
      s1 == [s EXCEPT !.inflight = RemoveAt(@, i)]
  IN IF ~InPool(s1, tx) THEN [st |-> Fin(s1), res |-> "ignored"]      \* evicted/committed meanwhile
     ELSE IF Accepted(s, v) THEN [st |-> Fin([s1 EXCEPT !.pool[s1.index[tx]].prio = v.prio]), res |-> "kept"]
     ELSE IF Weak_RecheckKeepsRejected THEN [st |-> Fin(s1), res |-> "kept_rejected"]
     ELSE LET s2 == DropAt(s1, s1.index[tx])
          IN [st |-> Fin(IF cfg.keepInvalid THEN s2 ELSE RemBoth(s2, tx)), res |-> "removed"]

(* Flush: v0 zeroes the counter, resets the cache, empties list and map; v1 removes every
   element (counter decreases by each size) and resets the cache                         *)
Flush(cfg, s) ==
  LET s1 == [s EXCEPT !.pool = << >>, !.index = << >>, !.cache = << >>, !.rcache = << >>,
                      !.bytes = IF cfg.version = "v0" THEN 0 ELSE @ - SumSizeSet(s.pool, DOMAIN s.pool)]
  IN [st |-> Fin(s1), res |-> "ok"]

(* RemoveTxByKey: the indexed element goes, the cache is untouched *)
RemoveTxByKey(cfg, s, tx) ==
  IF InPool(s, tx) THEN [st |-> Fin(DropAt(s, s.index[tx])), res |-> "ok"]
  ELSE [st |-> s, res |-> "notfound"]

-----------------------------------------------------------------------------
(* Reaping.  ImplOrder is what the code walks: v0 the list; v1 the VALUES OF THE KEY INDEX
   sorted by priority desc, then arrival (allEntriesSorted).  PropOrder is the order the
   property talks about, over the whole pool.                                            *)
ByPrioThenArrival(pool, ps) ==
  SortSeq(ps, LAMBDA a, b : pool[a].prio > pool[b].prio \/ (pool[a].prio = pool[b].prio /\ a < b))

PropOrder(cfg, pool) == IF cfg.version = "v0" THEN Positions(pool) ELSE ByPrioThenArrival(pool, Positions(pool))

ImplOrder(cfg, s) ==
  IF cfg.version = "v0" THEN Positions(s.pool)
  ELSE ByPrioThenArrival(s.pool, SelectSeq(Positions(s.pool),
                                           LAMBDA p : \E k \in DOMAIN s.index : s.index[k] = p))

TxsAt(pool, ps, k) == [j \in 1..k |-> pool[ps[j]].tx]

FitsBG(pool, ps, k, b, g) == (b < 0 \/ SumPSizeAt(pool, ps, k) <= b) /\ (g < 0 \/ SumGasAt(pool, ps, k) <= g)
\* ... as the implementation's loop sees it
ImplFitsBG(pool, ps, k, b, g) == (b < 0 \/ SumImplPSizeAt(pool, ps, k) <= b) /\ (g < 0 \/ SumGasAt(pool, ps, k) <= g)
FitsN(k, n) == n < 0 \/ k <= n

ReapBG(cfg, s, b, g) ==
  LET ps == ImplOrder(cfg, s)
      k  == CHOOSE k \in 0..Len(ps) : /\ \A j \in 0..k : ImplFitsBG(s.pool, ps, j, b, g)
                                      /\ (k = Len(ps) \/ ~ImplFitsBG(s.pool, ps, k + 1, b, g))
  IN TxsAt(s.pool, ps, k)

\* byte limits "tight" around the exact encoded sizes of the prefixes of the defined order:
\* exact, +-1, +-2 and minus up to 3 (the number of boundary-length txs a small prefix can hold)
TightDeltaAll == -3..2
TightBytes(cfg, pool, D) ==
  LET ps == PropOrder(cfg, pool)
  IN {x \in {SumPSizeAt(pool, ps, k) + d : k \in 0..Len(ps), d \in D} : x >= 0}

ReapN(cfg, s, n) ==
  LET ps  == ImplOrder(cfg, s)
      lim == IF n < 0 THEN Len(ps) ELSE IF Weak_ReapOffByOne THEN n + 1 ELSE n
      k   == IF Len(ps) < lim THEN Len(ps) ELSE lim
  IN TxsAt(s.pool, ps, k)

-----------------------------------------------------------------------------
(* THE PROPERTY (properties.jsonl C12), on a state / a step / a reap result *)

\* each transaction at most once; the key index is exactly the pool
Unique(s)     == \A i, j \in DOMAIN s.pool : i # j => s.pool[i].tx # s.pool[j].tx
IndexExact(s) == /\ DOMAIN s.index = Keys(s.pool)
                 /\ \A k \in DOMAIN s.index : s.index[k] \in DOMAIN s.pool /\ s.pool[s.index[k]].tx = k
\* count and byte size within the configured limits; the counter is the real sum
CountBounded(cfg, s) == Len(s.pool) <= cfg.size
BytesBounded(cfg, s) == s.bytes <= cfg.maxTxsBytes
BytesExact(s)        == s.bytes = SumSizeSet(s.pool, DOMAIN s.pool)
\* a committed transaction is not in the pool while remembered.  CommittedGoneStrict is the
\* statement; v1 violates it by the "response after commit" race (known finding), which
\* CommittedGone exempts -- and only that.
CommittedGoneStrict(s) == \A p \in DOMAIN s.pool : s.pool[p].tx \notin s.gone
CommittedGone(s)       == \A p \in DOMAIN s.pool : s.pool[p].tx \in s.gone => s.pool[p].tx \in s.late
\* without the weak switch the implementation cache is the specified one
CacheConforms(s) == s.cache = s.rcache

\* after Update(h, txs, ...) none of txs is in the pool
UpdateRemoves(s2, txs) == \A i \in DOMAIN txs : txs[i] \notin Keys(s2.pool)
\* a recheck the application (or postCheck) rejects leaves no entry of that tx
RecheckFilters(s1, s2, tx, v) == ~Accepted(s1, v) => tx \notin Keys(s2.pool)

\* a reap result is the maximal prefix of the defined order within the limits
ReapPrefixBG(cfg, pool, b, g, result) ==
  LET ps == PropOrder(cfg, pool)
      k  == Len(result)
  IN /\ k <= Len(ps)
     /\ result = TxsAt(pool, ps, k)
     /\ FitsBG(pool, ps, k, b, g)
     /\ (k = Len(ps) \/ ~FitsBG(pool, ps, k + 1, b, g))
ReapPrefixN(cfg, pool, n, result) ==
  LET ps == PropOrder(cfg, pool)
      k  == Len(result)
  IN /\ k <= Len(ps)
     /\ result = TxsAt(pool, ps, k)
     /\ FitsN(k, n)
     /\ (k = Len(ps) \/ ~FitsN(k + 1, n))
=============================================================================
