-------------------------------- MODULE TMWal --------------------------------
(* Design specification of the consensus write-ahead log (property C15).

   One consensus node that logs to a BaseWAL on a POSIX file system with fsync, crashes,
   has single bytes of closed files damaged, and restarts through State.OnStart (catch-up
   replay with repair).  The WAL itself is the value `w` of TMWalOps; everything else here is
   the environment (what the node writes, when it crashes) and ghost history.

   The node part is deliberately thin: the only thing C15 needs from the consensus state
   machine is that its round state is a function of the inputs it has applied in the current
   height, so `applied` (the sequence of input record ids) stands for height/round/step/lock/
   votes.  The real thing is compared on the real code (trace/TMWalTrace.tla, ReplayRestores).

   Actions (one per call the production code makes / per environment event):
     Reopen        State.OnStart: [verify + repair head] OpenWAL, catchupReplay, repair loop
     WriteIn       receiveRoutine: wal.Write(peer msgInfo / timeoutInfo); handle it
     WriteRS       newStep: wal.Write(EventDataRoundState)
     WriteSyncIn   receiveRoutine: wal.WriteSync(own msgInfo); handle it
     EHBegin/EHFinish  finalizeCommit: wal.WriteSync(EndHeightMessage{h}) = Write ; FlushAndSync
                   (split so that a crash can fall between them: the block is saved, the marker is not durable)
     Flush         signAddVote / decideProposal / flush ticker: wal.FlushAndSync()
     FlushHalf     the first half of FlushAndSync (buffer written to the file, fsync not yet done)
     CheckHead     group ticker: checkHeadSizeLimit -> RotateFile
     CheckTotal    group ticker: checkTotalSizeLimit
     SearchTouch   any SearchForEndHeight while running (side effect: O_CREATE of pruned files)
     Stop          graceful OnStop
     Crash         power loss: any byte prefix of the unsynced tail survives (classes of offsets)
     Corrupt       one byte of a closed file changes (crc/data field or length field)          *)
EXTENDS TMWalOps

CONSTANTS
  BufCap, HeadLimit, TotalLimit,   \* the group's bufio size, headSizeLimit, totalSizeLimit
  MaxRecs,      \* the node stops writing once the log has seen this many records (#ENDHEIGHT 0 of OnStart included)
  MaxFiles,     \* files in the group, head included
  MaxCrash,     \* crash / reopen cycles
  MaxStop,      \* graceful stops
  MaxCorrupt,   \* damaged bytes
  MaxH,         \* heights
  SmallSize,    \* bytes of an ordinary record
  BigSize,      \* bytes of a record larger than what is left in the bufio buffer
  MaxBig,       \* how many big records
  TornSizes,    \* representative torn offsets: {0 < in crc < 4 <= in length < 8 <= in data}
  ResyncSet,    \* resynchronisation choices of a desynchronised decoder (0 = never)
  ReplayEchoes  \* catch-up replay makes the node log again: handleMsg -> newStep -> wal.Write(EventDataRoundState)
                \* (wal.go: "currently the wal is overwritten during replay catchup")

VARIABLES
  w,            \* the WAL (TMWalOps)
  written,      \* ghost: every record ever handed to the WAL, in order
  acked,        \* ghost: ids covered by a nil return of WriteSync / FlushAndSync
  pruned,       \* ghost: ids that were in files removed by the size limit
  excused,      \* ghost: ids at or behind a damaged byte in the same file
  curH, topH,   \* height the node works on; highest height whose #ENDHEIGHT write was started
  mode,         \* "run" | "ending" (between Write(EH) and its FlushAndSync) | "midwrite" (between two group writes of one record)
  pend,         \* midwrite: the chunk still to be written and what the caller does afterwards
  applied,      \* inputs applied in the current height (stands for the round state)
  crashApplied, crashH,   \* `applied` / height at the last crash or stop
  lastStart,    \* result of the last Reopen
  lastPrune,    \* [before, removed] of the last CheckTotal
  lastRead,     \* strict read of the whole log right after the previous Reopen
  openId,       \* first record id of the current incarnation: a nil FlushAndSync acknowledges all ids >= openId
  ncrash, nstop, ncorrupt, nreopen, nbig,
  act           \* the action that produced this state (read by the replay driver only)

vars == <<w, written, acked, pruned, excused, curH, topH, mode, pend, applied, crashApplied, crashH,
          lastStart, lastPrune, lastRead, openId, ncrash, nstop, ncorrupt, nreopen, nbig, act>>
View == <<w, written, acked, pruned, excused, curH, topH, mode, pend, applied, crashApplied, crashH,
          lastStart, lastPrune, lastRead, openId, ncrash, nstop, ncorrupt, nreopen, nbig>>

NextId == Len(written) + 1
WrittenIds == {written[k].id : k \in 1..Len(written)}
IdsOfFile(items) == {items[k].id : k \in 1..Len(items)} \ {0}

\* a reader that comes later opens its own Group: indices from the directory
ReaderView(x) == IF x.open THEN x ELSE [x EXCEPT !.gmin = GInfo(x).min, !.gmax = GInfo(x).max]
StrictAll(x, rsy) == LET rv == ReaderView(x) IN StrictOf(Decode(Stream(rv, MinReadIndex(rv)), rsy))
MustKeep == acked \ (pruned \cup excused)
\* a nil return of FlushAndSync covers everything handed to this WAL object so far
SinceOpen(ws) == {ws[k].id : k \in {j \in 1..Len(ws) : ws[j].id >= openId}}

NoPend == [chunk |-> Whole([id |-> 0, kind |-> "rs", h |-> 0, size |-> 0]), sync |-> FALSE, isin |-> FALSE]

Init ==
  /\ w = EmptyWal(BufCap, HeadLimit, TotalLimit)
  /\ written = << >> /\ acked = {} /\ pruned = {} /\ excused = {}
  /\ curH = 1 /\ topH = 0 /\ mode = "run" /\ pend = NoPend
  /\ applied = << >> /\ crashApplied = << >> /\ crashH = 1
  /\ lastStart = [res |-> "none", csH |-> 0, marker |-> FALSE, restoreOK |-> TRUE]
  /\ lastPrune = [before |-> << >>, removed |-> << >>]
  /\ lastRead = << >> /\ openId = 1
  /\ ncrash = 0 /\ nstop = 0 /\ ncorrupt = 0 /\ nreopen = 0 /\ nbig = 0
  /\ act = [name |-> "Init"]

UnchangedGhostW == UNCHANGED <<pruned, excused, lastStart, lastPrune, lastRead, openId, ncrash, nstop, ncorrupt, nreopen>>
UnchangedGhost == UNCHANGED <<pend, pruned, excused, lastStart, lastPrune, lastRead, openId, ncrash, nstop, ncorrupt, nreopen>>

\* ---------------------------------------------------------------- start-up
(* The state store is ahead of or equal to the WAL: after a crash the handshake brings the
   state to the last block that was saved, so consensus restarts at topH + 1.              *)
Reopen ==
  /\ ~w.open
  /\ \E rsy \in ResyncSet :
       LET csH  == topH + 1
           eh0a == [id |-> NextId, kind |-> "eh", h |-> 0, size |-> SmallSize]
           eh0b == [id |-> NextId + 1, kind |-> "eh", h |-> 0, size |-> SmallSize]
           r    == StartUp(w, csH, rsy, eh0a, eh0b)
           new  == SubSeq(<<eh0a, eh0b>>, 1, r.neh0)
           \* was the previous height's marker there to be found?
           marker == \E k \in 1..Len(written) :
                       /\ written[k].kind = "eh" /\ written[k].h = csH - 1
                       /\ written[k].id \in (OnDiskIds(w) \ excused)
           restored == IF r.res = "ok" THEN r.replay ELSE << >>
           restoreOK ==
             IF r.res = "fail" THEN TRUE
             ELSE IF csH = crashH
             THEN marker =>
                    /\ WIsPrefix(restored, crashApplied)
                    /\ \A k \in 1..Len(crashApplied) :
                          crashApplied[k] \in MustKeep => crashApplied[k] \in WSetOf(restored)
             ELSE restored = << >>
           \* what the replayed handlers write while catching up (buffered, not synced)
           echo == IF ReplayEchoes /\ r.res = "ok" /\ Len(r.replay) > 0
                   THEN <<[id |-> NextId + r.neh0, kind |-> "rs", h |-> csH, size |-> SmallSize]>> ELSE << >>
       IN /\ w' = IF Len(echo) = 0 THEN r.w ELSE WriteRec(r.w, Whole(echo[1]))
          /\ written' = written \o new \o echo
          /\ acked' = acked \cup {new[k].id : k \in 1..Len(new)}
          /\ curH' = csH /\ mode' = "run" /\ pend' = NoPend
          /\ applied' = restored
          /\ lastStart' = [res |-> r.res, csH |-> csH, marker |-> marker, restoreOK |-> restoreOK]
          /\ lastRead' = IF r.res = "fail" THEN lastRead ELSE IdSeq(RecsOf(StrictAll(r.w, 0)))
          \* a start-up that fails leaves the node down: nothing but the files changes
          /\ nreopen' = IF r.res = "fail" THEN nreopen ELSE nreopen + 1
          /\ openId' = IF r.res = "fail" /\ r.neh0 = 0 THEN openId ELSE NextId
          /\ act' = [name |-> "Reopen", csH |-> csH, rsy |-> rsy, res |-> r.res, precheck |-> r.precheck,
                     repaired |-> r.repaired, neh0 |-> r.neh0, replay |-> r.replay]
  /\ UNCHANGED <<pruned, excused, topH, crashApplied, crashH, lastPrune, ncrash, nstop, ncorrupt, nbig>>

\* ---------------------------------------------------------------- the running node
CanWrite == w.open /\ mode = "run" /\ Len(written) < MaxRecs /\ lastStart.res # "fail"

(* wal.Write / wal.WriteSync: WALEncoder.Encode hands the record to the group in Chunks(r) Write
   calls, each under the group's mutex on its own.  Between two of them the group's ticker
   goroutine (CheckHeadA, CheckTotalA), the flush ticker (FlushHalf) and a crash may run.        *)
DoWrite(kind, size, sync) ==
  LET r  == [id |-> NextId, kind |-> kind, h |-> curH, size |-> size]
      cs == Chunks(r)
      w1 == WriteRec(w, cs[1])
  IN /\ written' = Append(written, r)
     /\ IF Len(cs) = 1
        THEN /\ w' = IF sync THEN FlushSync(w1) ELSE w1
             /\ acked' = IF sync THEN acked \cup SinceOpen(Append(written, r)) ELSE acked
             /\ applied' = IF kind = "in" THEN Append(applied, r.id) ELSE applied
             /\ mode' = mode /\ pend' = pend
             /\ act' = [name |-> IF sync THEN "WriteSync" ELSE "Write", rec |-> r]
        ELSE /\ w' = w1
             /\ acked' = acked /\ applied' = applied
             /\ mode' = "midwrite" /\ pend' = [chunk |-> cs[2], sync |-> sync, isin |-> kind = "in"]
             /\ act' = [name |-> IF sync THEN "WriteSyncBegin" ELSE "WriteBegin", rec |-> r]

WriteEnd ==
  /\ w.open /\ mode = "midwrite"
  /\ LET w1 == WriteRec(w, pend.chunk) IN
       /\ w' = IF pend.sync THEN FlushSync(w1) ELSE w1
       /\ acked' = IF pend.sync THEN acked \cup SinceOpen(written) ELSE acked
       /\ applied' = IF pend.isin THEN Append(applied, pend.chunk.id) ELSE applied
  /\ mode' = "run" /\ pend' = NoPend
  /\ act' = [name |-> "WriteEnd"]
  /\ UNCHANGED <<written, pruned, excused, curH, topH, crashApplied, crashH, lastStart, lastPrune, lastRead, openId,
                 ncrash, nstop, ncorrupt, nreopen, nbig>>

WriteIn ==
  /\ CanWrite
  /\ \E big \in BOOLEAN :
       /\ big => nbig < MaxBig
       /\ DoWrite("in", IF big THEN BigSize ELSE SmallSize, FALSE)
       /\ nbig' = IF big THEN nbig + 1 ELSE nbig
  /\ UNCHANGED <<curH, topH, crashApplied, crashH>> /\ UnchangedGhostW

WriteRS ==
  /\ CanWrite
  /\ DoWrite("rs", SmallSize, FALSE)
  /\ UNCHANGED <<curH, topH, crashApplied, crashH, nbig>> /\ UnchangedGhostW

WriteSyncIn ==
  /\ CanWrite
  /\ DoWrite("in", SmallSize, TRUE)
  /\ UNCHANGED <<curH, topH, crashApplied, crashH, nbig>> /\ UnchangedGhostW

EHBegin ==
  /\ CanWrite /\ curH <= MaxH
  /\ LET r == [id |-> NextId, kind |-> "eh", h |-> curH, size |-> SmallSize] IN
       /\ w' = WriteRec(w, Whole(r))     \* (the marker is written like any record; kept in one step here)
       /\ written' = Append(written, r)
       /\ act' = [name |-> "Write", rec |-> r]
  /\ topH' = curH /\ mode' = "ending"
  /\ UNCHANGED <<acked, curH, applied, crashApplied, crashH, nbig>> /\ UnchangedGhost

EHFinish ==
  /\ w.open /\ mode = "ending"
  /\ w' = FlushSync(w)
  /\ acked' = acked \cup SinceOpen(written)
  /\ curH' = curH + 1 /\ mode' = "run" /\ applied' = << >>
  /\ act' = [name |-> "FlushAndSync"]
  /\ UNCHANGED <<written, topH, crashApplied, crashH, nbig>> /\ UnchangedGhost

Flush ==
  /\ w.open /\ mode = "run" /\ (w.buf # << >> \/ w.hu # << >>)
  /\ w' = FlushSync(w)
  /\ acked' = acked \cup SinceOpen(written)
  /\ act' = [name |-> "FlushAndSync"]
  /\ UNCHANGED <<written, curH, topH, mode, applied, crashApplied, crashH, nbig>> /\ UnchangedGhost

\* the instant inside Group.FlushAndSync between headBuf.Flush() and Head.Sync() (also: any
\* moment the kernel has the bytes and the disk does not): a crash here can tear the tail
FlushHalf ==
  /\ w.open /\ w.buf # << >>
  /\ w' = FlushOnly(w)
  /\ act' = [name |-> "FlushHalf"]
  /\ UNCHANGED <<written, acked, curH, topH, mode, applied, crashApplied, crashH, nbig>> /\ UnchangedGhost

CheckHeadA ==
  /\ w.open /\ WouldRotate(w) /\ w.gmax + 2 <= MaxFiles
  /\ w' = Rotate(w)
  /\ act' = [name |-> "CheckHead", rotated |-> TRUE]
  /\ UNCHANGED <<written, acked, curH, topH, mode, applied, crashApplied, crashH, nbig>> /\ UnchangedGhost

CheckTotalA ==
  /\ w.open
  /\ LET r == CheckTotal(w)
         gone == UNION {IdsOfFile(DiskFile(w, r.removed[k])) : k \in 1..Len(r.removed)}
     IN /\ r.removed # << >>
        /\ w' = [w EXCEPT !.disk = r.disk]
        /\ pruned' = pruned \cup gone
        /\ lastPrune' = [before |-> [k \in 1..Len(w.disk) |-> w.disk[k].idx], removed |-> r.removed]
        /\ act' = [name |-> "CheckTotal", removed |-> r.removed]
  /\ UNCHANGED <<written, acked, excused, curH, topH, mode, pend, applied, crashApplied, crashH, lastStart, lastRead,
                 openId, ncrash, nstop, ncorrupt, nreopen, nbig>>

SearchTouch ==
  /\ w.open
  /\ \E i \in w.gmin..(w.gmax - 1) : i \notin Idxs(w)      \* only then a search changes anything
  /\ \E h \in 0..(MaxH + 1), rsy \in ResyncSet :
       LET s == Search(w, h, TRUE, rsy) IN
       /\ Touch(w, s.low) # w
       /\ w' = Touch(w, s.low)
       /\ act' = [name |-> "Search", h |-> h, found |-> s.found]
  /\ UNCHANGED <<written, acked, curH, topH, mode, applied, crashApplied, crashH, nbig>> /\ UnchangedGhost

Stop ==
  /\ w.open /\ mode = "run" /\ nstop < MaxStop
  /\ w' = StopWal(w)
  /\ acked' = acked \cup SinceOpen(written)
  /\ crashApplied' = applied /\ crashH' = curH /\ applied' = << >>
  /\ nstop' = nstop + 1
  /\ act' = [name |-> "Stop"]
  /\ UNCHANGED <<written, pruned, excused, curH, topH, mode, pend, lastStart, lastPrune, lastRead, openId, ncrash, ncorrupt, nreopen, nbig>>

TornSizesFor(size) == {n \in TornSizes : n < size}

Crash ==
  /\ w.open /\ ncrash < MaxCrash
  /\ \E c \in CrashChoices(w, TornSizesFor) :
       /\ w' = CrashAt(w, c.j, c.tk)
       /\ act' = [name |-> "Crash", j |-> c.j, tk |-> c.tk]
  /\ crashApplied' = applied /\ crashH' = curH /\ applied' = << >>
  /\ ncrash' = ncrash + 1
  /\ UNCHANGED <<written, acked, pruned, excused, curH, topH, mode, pend, lastStart, lastPrune, lastRead, openId, nstop, ncorrupt, nreopen, nbig>>

Corrupt ==
  /\ ~w.open /\ ncorrupt < MaxCorrupt
  /\ \E cls \in {"len", "data"} :
       \/ \E p \in 1..Len(w.hs) :
            /\ w.hs[p].st = "good"
            /\ w' = DamageHead(w, p, cls)
            /\ excused' = excused \cup IdsOfFile(SubSeq(w.hs, p, Len(w.hs)))
            /\ act' = [name |-> "Corrupt", file |-> -1, pos |-> p, cls |-> cls]
       \/ \E k \in 1..Len(w.disk) : \E p \in 1..Len(w.disk[k].items) :
            /\ w.disk[k].items[p].st = "good"
            /\ w' = DamageDisk(w, k, p, cls)
            /\ excused' = excused \cup IdsOfFile(SubSeq(w.disk[k].items, p, Len(w.disk[k].items)))
            /\ act' = [name |-> "Corrupt", file |-> w.disk[k].idx, pos |-> p, cls |-> cls]
  /\ ncorrupt' = ncorrupt + 1
  /\ UNCHANGED <<written, acked, pruned, curH, topH, mode, pend, applied, crashApplied, crashH, lastStart, lastPrune,
                 lastRead, openId, ncrash, nstop, nreopen, nbig>>

Next == Reopen \/ WriteIn \/ WriteRS \/ WriteSyncIn \/ WriteEnd \/ EHBegin \/ EHFinish \/ Flush \/ FlushHalf \/ CheckHeadA
        \/ CheckTotalA \/ SearchTouch \/ Stop \/ Crash \/ Corrupt

Spec == Init /\ [][Next]_vars

\* ================================================================== properties (C15)
\* every acknowledged record is on stable storage unless the size limit removed its file or a
\* damaged byte lies before it in its file
AckedDurable == MustKeep \subseteq DurableIds(w)

AckedSeq == SelectSeq([k \in 1..Len(written) |-> written[k].id], LAMBDA x : x \in MustKeep)

\* ... and any later reader returns it: the strict reader of the whole group, in order, when no
\* byte was damaged; the reader of its own file in any case
AckedReadable ==
  /\ ncorrupt = 0 => \A rsy \in ResyncSet : WIsSubSeq(AckedSeq, IdSeq(RecsOf(StrictAll(w, rsy))))
  /\ \A id \in MustKeep :
       \E k \in 1..Len(w.disk) + 1 : id \in WSetOf(IdSeq(Decode(AllFiles(w)[k], 0)))

\* a reader never returns a record that was not written, and never out of order
NoInvented ==
  LET rv == ReaderView(w) IN
  \A rsy \in ResyncSet : \A i \in rv.gmin..rv.gmax :
     LET d == IdSeq(RecsOf(Decode(Stream(rv, i), rsy))) IN
     /\ \A k \in 1..Len(d) : d[k] \in WrittenIds
     /\ StrictlyIncreasing(d)

\* the size limit removes whole files, oldest first, never the head
PruneWholeOldest ==
  /\ WIsPrefix(lastPrune.removed, lastPrune.before)
  /\ \A id \in WrittenIds : id \in MustKeep => id \in OnDiskIds(w)

\* searching for #ENDHEIGHT h (as catch-up does, skipping corrupted entries) succeeds exactly when
\* the marker is in a file that still exists; a strict search agrees when nothing is damaged
SearchExact ==
  LET rv == ReaderView(w) IN
  \A h \in 0..(MaxH + 1) : \A rsy \in ResyncSet :
     LET si == Search(rv, h, TRUE, rsy)
         ss == Search(rv, h, FALSE, rsy)
         demanded == \E k \in 1..Len(written) :
                        written[k].kind = "eh" /\ written[k].h = h /\ written[k].id \in (OnDiskIds(w) \ excused)
     IN /\ si.found => EHOnDisk(rv, h)
        /\ ss.found => EHOnDisk(rv, h)
        /\ demanded => si.found
        /\ AllClean(rv) => ((ss.found <=> EHOnDisk(rv, h)) /\ ss.err = "none")

\* what the previous incarnation could read and was acknowledged is still read, in the same order
\* (append behind a torn tail, then restart again)
SecondRestartSame ==
  (lastStart.res # "fail" /\ ncorrupt = 0) =>
     WIsSubSeq(SelectSeq(lastRead, LAMBDA x : x \in MustKeep), IdSeq(RecsOf(StrictAll(w, 0))))

\* replaying the unfinished height restores the inputs the node had applied (its round state);
\* the comparison is made by Reopen, in the state it produces
ReplayRestores == lastStart.restoreOK

TypeOK ==
  /\ w.gmin <= w.gmax /\ w.part >= 0
  /\ acked \subseteq WrittenIds
=============================================================================
