--------------------------- MODULE TMConsensusNet ---------------------------
(* N consensus nodes (TMConsensusNode) + asynchronous network + Byzantine validators,
   one height.  C01 (agreement, validity, certified decisions), the network side of C02,
   and (with GST, see TMConsensusGST) C03.

   rs[n]   : round state of correct node n (record of TMConsensusNode)
   inq[n]  : cs.internalMsgQueue of n — its own proposal / block parts / votes, FIFO
   soup    : messages visible to the network.  A correct node's message enters the soup
             when the node itself has handled it (the reactor gossips from the vote sets
             and the proposal fields).  Any message in the soup may be delivered to any
             node at any time, any number of times, or never: order, delay, duplication
             and loss are all covered.
   ByzMsgs : everything the faulty validators can sign, available from the start.
   signed  : ghost — every message a correct node's key signed
   act     : the environment choice that produced this state (the replay schedule)
*)
EXTENDS TMConsensusNode

CONSTANTS
  Corr,          \* correct validators that run a node
  Byz,           \* faulty validators
  ByzValues,     \* blocks the faulty validators can build (valid ones and members of InvalidValues)
  LazyByz,       \* reduction: deliver a Byzantine vote only where it does more than fill a slot
  TimeoutsOn     \* which timeout kinds may fire

ASSUME Corr \cup Byz = Vals /\ Corr \cap Byz = {}

VARIABLES rs, inq, soup, signed, act
vars == <<rs, inq, soup, signed, act>>

CorrValues == {FreshValue(n) : n \in Corr}
AllValues  == CorrValues \cup ByzValues

ByzVotes == [t : {"prevote", "precommit"}, src : Byz, r : Rounds, v : AllValues \cup {Nil}, pol : {-2}]
ByzProposals ==
  {[t |-> "proposal", src |-> b, r |-> r, v |-> v, pol |-> p] :
      b \in Byz, r \in {x \in Rounds : Proposer(x) \in Byz \/ W("ProposalAnySigner")},
      v \in AllValues, p \in -1..(MaxRound - 1)}
ByzBlocks == {[t |-> "block", src |-> "-", r |-> -1, v |-> v, pol |-> -2] : v \in ByzValues}
\* +2/3 claims (VoteSetMaj23) of the faulty validators, true or not: they make a node record conflicting votes for the
\* claimed block.  (Claims of correct nodes are true and only ever add votes that exist; idealised gossip sends them in
\* TMConsensusGST.)  Reduction: a claim is delivered only where a faulty validator already has another vote in that vote
\* set, i.e. where it can make a difference; before that it commutes with everything.
ByzClaims == [t : {"claim_prevote", "claim_precommit"}, src : Byz, r : Rounds, v : AllValues, pol : {-2}]
ClaimUseful(s, m) ==
  LET vs == IF m.t = "claim_prevote" THEN s.pv[m.r] ELSE s.pc[m.r]
  IN \E b \in Byz : vs.votes[b] # None /\ vs.votes[b] # m.v
ByzMsgs == ByzVotes \cup ByzProposals \cup ByzBlocks \cup ByzClaims

\* messages a node pushes on its own queue for the outputs of a step
\* (decideProposal: the proposal, then the block parts; signAddVote: the vote)
RECURSIVE OutToMsgs(_, _)
OutToMsgs(me, out) ==
  IF out = << >> THEN << >> ELSE
  LET h == Head(out) IN
  IF h.t = "sched" THEN OutToMsgs(me, Tail(out))
  ELSE IF h.t = "proposal"
       THEN <<[t |-> "proposal", src |-> me, r |-> h.r, v |-> h.v, pol |-> h.pol],
              [t |-> "block", src |-> "-", r |-> -1, v |-> h.v, pol |-> -2]>> \o OutToMsgs(me, Tail(out))
  ELSE <<[t |-> h.t, src |-> me, r |-> h.r, v |-> h.v, pol |-> -2]>> \o OutToMsgs(me, Tail(out))

SignedBy(me, out) == {[n |-> me, t |-> m.t, r |-> m.r, v |-> m.v, pol |-> m.pol] :
                        m \in {out[i] : i \in {j \in DOMAIN out : out[j].t # "sched"}}}

Init ==
  /\ rs = [n \in Corr |-> InitNode]
  /\ inq = [n \in Corr |-> << >>]
  /\ soup = {}
  /\ signed = {}
  /\ act = [name |-> "Init", n |-> "-", m |-> [t |-> "-", src |-> "-", r |-> -1, v |-> "-", pol |-> -2], k |-> "-"]

\* install the result of a step of node n
Install(n, s2) ==
  /\ rs' = [rs EXCEPT ![n] = ClearOut(s2)]
  /\ signed' = signed \cup SignedBy(n, s2.out)

\* a message from the network is handled by n
Deliver(n, m) ==
  /\ (m.t = "block" \/ m.src # n)
  /\ LET peer == IF m.t = "block" THEN n ELSE m.src
         s2   == HandleMsg(n, rs[n], m, peer) IN
     /\ s2 # rs[n]
     /\ (LazyByz /\ m \in ByzVotes) =>
           s2 # AddVote(rs[n], m.t, m.r, m.src, m.v, peer).s
     /\ (m \in ByzClaims) => ClaimUseful(rs[n], m)
     /\ Install(n, s2)
     /\ inq' = [inq EXCEPT ![n] = inq[n] \o OutToMsgs(n, s2.out)]
     /\ soup' = soup
     /\ act' = [name |-> "Deliver", n |-> n, m |-> m, k |-> "-"]

\* n handles the head of its own queue; the message becomes visible to the network
ProcessInternal(n) ==
  /\ inq[n] # << >>
  /\ LET m  == Head(inq[n])
         s2 == HandleMsg(n, rs[n], m, n) IN
     /\ Install(n, s2)
     /\ inq' = [inq EXCEPT ![n] = Tail(inq[n]) \o OutToMsgs(n, s2.out)]
     /\ soup' = soup \cup {m}
     /\ act' = [name |-> "ProcessInternal", n |-> n, m |-> m, k |-> "-"]

\* a timeout fires at n.  Enabledness is derived from the state: these are exactly the
\* timeouts that handleTimeout's staleness test would not drop (DerivedTimeouts, DESIGN 5/C01)
TimeoutEnabled(s, k) ==
  /\ s.height = 1 /\ ~Dead(s)
  /\ CASE k = "NewHeight"     -> s.step = StNewHeight
       [] k = "Propose"       -> s.step = StPropose
       [] k = "PrevoteWait"   -> s.step = StPrevoteWait
       [] k = "PrecommitWait" -> s.ttp /\ s.step < StCommit
       [] OTHER -> FALSE

Timeout(n, k) ==
  /\ k \in TimeoutsOn
  /\ TimeoutEnabled(rs[n], k)
  /\ LET s2 == HandleTimeout(n, rs[n], k, rs[n].round) IN
     /\ s2 # rs[n]
     /\ Install(n, s2)
     /\ inq' = [inq EXCEPT ![n] = inq[n] \o OutToMsgs(n, s2.out)]
     /\ soup' = soup
     /\ act' = [name |-> "Timeout", n |-> n, m |-> [t |-> "-", src |-> "-", r |-> rs[n].round, v |-> "-", pol |-> -2], k |-> k]

Next ==
  \E n \in Corr :
     \/ \E m \in soup \cup ByzMsgs : Deliver(n, m)
     \/ ProcessInternal(n)
     \/ \E k \in {"NewHeight", "Propose", "PrevoteWait", "PrecommitWait"} : Timeout(n, k)

Spec == Init /\ [][Next]_vars

\* ------------------------------------------------------------------ properties (C01)
Agreement ==
  \A a, b \in Corr : rs[a].decision # Nil /\ rs[b].decision # Nil => SameBlock(rs[a].decision, rs[b].decision)
DecisionValid == \A a \in Corr : rs[a].decision # Nil => Valid(rs[a].decision)
NoPanic == \A a \in Corr : rs[a].panic = "none"
\* a decision is backed by precommits for exactly that block, in one round, from > 2/3 of the power:
\* the precommits are messages that exist (signed by correct nodes or signable by faulty ones)
PrecommitsFor(v, r) ==
  {x.n : x \in {y \in signed : y.t = "precommit" /\ y.r = r /\ y.v = v}} \cup
  {b \in Byz : TRUE}
DecisionCertified ==
  \A a \in Corr : rs[a].decision # Nil =>
     \E r \in Rounds : StrictQuorum(SumPower(PrecommitsFor(rs[a].decision, r)))

\* supports C03: a node in the commit step collects the parts of the DECIDED block and of nothing else (it never looks at
\* its part set again once it waits there, so with any other header it would wait for ever)
CommitPartsMatch ==
  \A n \in Corr : (rs[n].step = StCommit /\ rs[n].decision = Nil /\ ~Dead(rs[n]))
                     => rs[n].partsHdr = Maj23(rs[n].pc[rs[n].commitR])

\* ------------------------------------------------------------------ properties (C02, network view)
NoEquivocation ==
  \A x, y \in signed : x.n = y.n /\ x.t = y.t /\ x.r = y.r => x.v = y.v /\ x.pol = y.pol

View == <<rs, inq, soup>>

\* ------------------------------------------------------------------ adversarial prefixes (C03)
\* States "regardless of what happened before that moment" of C03 calls out.  TLC finds a behaviour that
\* reaches each of them (as a violation of ~Goal in simulation mode); the behaviour is stored under
\* spec/attacks/C03 and replayed on real nodes as the asynchronous prefix before the synchronous suffix.
Undecided == \A n \in Corr : rs[n].decision = Nil /\ ~Dead(rs[n])
\* two correct nodes locked on different blocks, the older lock's owner has left the round of the newer
\* lock without having seen its polka (it can only learn it as a LATE polka)
GoalSplitLockStale ==
  /\ Undecided
  /\ \E a, b \in Corr :
        /\ a # b /\ rs[a].lockedV # Nil /\ rs[b].lockedV # Nil /\ rs[a].lockedV # rs[b].lockedV
        /\ rs[a].lockedR < rs[b].lockedR /\ rs[a].round > rs[b].lockedR
        /\ ~HasMaj23(rs[a].pv[rs[b].lockedR])
\* a node knows the commit (+2/3 precommits) but not the block, the others are still undecided and unlocked from it
GoalCommitWithoutBlock ==
  \E a \in Corr : rs[a].step = StCommit /\ rs[a].propBlock = Nil /\ rs[a].decision = Nil
                   /\ \E b \in Corr : b # a /\ rs[b].decision = Nil /\ rs[b].step < StCommit
\* ... and it has no proposal for its round yet, whose proposer is faulty (the faulty proposer can still send one)
GoalCommitNoProposal ==
  \E a \in Corr : rs[a].step = StCommit /\ rs[a].propBlock = Nil /\ rs[a].decision = Nil /\ rs[a].prop = NoProp
                   /\ Proposer(rs[a].round) \in Byz /\ inq[a] = << >>
NoGoalCommitNoProposal == ~GoalCommitNoProposal
\* one node decided, another is locked on that block in an earlier round and a third is not locked at all
GoalOneDecidedOthersBehind ==
  \E a, b \in Corr : a # b /\ rs[a].decision # Nil /\ rs[b].decision = Nil /\ rs[b].round >= 1
\* a valid block that is not the locked block of some other node (stale proposals with POL rounds)
GoalValidVsLock ==
  /\ Undecided
  /\ \E a, b \in Corr : a # b /\ rs[a].validV # Nil /\ rs[b].lockedV # Nil /\ rs[a].validV # rs[b].lockedV
                          /\ rs[a].round >= 2 /\ rs[b].round >= 2
\* stage 1 of the split-lock prefix: exactly one node locked in round 0, everybody has moved to round 1
StageOneLockedRound1 ==
  /\ Undecided
  /\ \E a \in Corr : rs[a].lockedV # Nil /\ rs[a].lockedR = 0 /\ \A b \in Corr \ {a} : rs[b].lockedV = Nil
  /\ \A n \in Corr : rs[n].round = 1 /\ inq[n] = << >>
NoStageOneLockedRound1 == ~StageOneLockedRound1
\* stage 1 of fork attacks on lock rules: one node has decided B in round 0, the other correct nodes are locked on B
\* (round 0), undecided and have moved to round 1 without a proposal
StageOneDecidedOthersLocked ==
  \E a \in Corr : /\ rs[a].decision # Nil /\ rs[a].lastCommit.r = 0
                   /\ \A b \in Corr \ {a} : /\ rs[b].decision = Nil /\ rs[b].lockedV = rs[a].decision /\ rs[b].lockedR = 0
                                             /\ rs[b].round = 1 /\ rs[b].prop = NoProp /\ rs[b].step = StPropose /\ inq[b] = << >>
NoStageOneDecidedOthersLocked == ~StageOneDecidedOthersLocked
\* corridors: state constraints that restrict TLC's breadth-first search to a sub-behaviour, so that TLC can be
\* used as a planner (shortest behaviour to a stage / to a violation).  Used for attack synthesis only, never for
\* a verdict: a corridor removes behaviours, so "no violation" inside one proves nothing.
CorridorStage1 ==
  /\ \A n \in Corr : rs[n].round <= 1
  /\ (act.name = "Deliver" /\ act.m \in ByzMsgs) => (act.m.t = "precommit" /\ act.m.v = Nil /\ act.m.r = 0)
  /\ act.name = "Timeout" => act.k \in {"NewHeight", "PrecommitWait"}
\* wider: the faulty validator's round-0 votes are needed for a quorum (weighted sets)
CorridorStage1W ==
  /\ \A n \in Corr : rs[n].round <= 1
  /\ (act.name = "Deliver" /\ act.m \in ByzMsgs) => (act.m \in ByzVotes /\ act.m.r = 0 /\ act.m.v \in CorrValues \cup {Nil})
  /\ act.name = "Timeout" => act.k \in {"NewHeight", "PrecommitWait"}
\* a node is left without the round-0 proposal, is moved to round 1 (faulty proposer) by +2/3-any precommits and only then
\* learns the round-0 commit; the faulty proposer of round 1 then sends its proposal (ProposalResetsParts)
CorridorStuck ==
  LET X  == CHOOSE n \in Corr : n # Proposer(0)
      B0 == FreshValue(Proposer(0))
      Others == Corr \ {X}
  IN
  /\ \A n \in Corr : rs[n].round <= 1
  /\ (act.name = "Deliver" /\ act.m \in ByzVotes) => (act.m.r = 0 /\ act.m.v = B0)
  /\ (act.name = "Deliver" /\ act.m \in ByzProposals) => (act.m.r = 1 /\ act.n = X)
  /\ (act.name = "Deliver" /\ act.m \in ByzClaims) => FALSE
  /\ (act.name = "Deliver" /\ act.m.t \in {"proposal", "block"} /\ act.m \notin ByzProposals) => act.n # X
  /\ act.name = "Timeout" => (act.k = "NewHeight" \/ (act.n = X /\ act.k \in {"Propose", "PrevoteWait", "PrecommitWait"}))
  \* two phases: first the other correct nodes run round 0 up to their precommits, only then X starts
  /\ (act.n = X) => \A n \in Others : rs[n].step >= StPrecommit /\ inq[n] = << >>
  /\ (act.n \in Others) => (rs[X].step = StNewHeight /\ rs[X].round = 0)
CorridorStage2 ==
  /\ \A n \in Corr : rs[n].round <= 1
  /\ (act.name = "Deliver" /\ act.m \in ByzVotes) => (act.m.v \in ByzValues /\ act.m.r = 1)
  /\ (act.name = "Deliver" /\ act.m \in ByzProposals) => act.m.r = 1
  /\ act.name # "Timeout"
NoGoalSplitLockStale == ~GoalSplitLockStale
NoGoalCommitWithoutBlock == ~GoalCommitWithoutBlock
NoGoalOneDecidedOthersBehind == ~GoalOneDecidedOthersBehind
NoGoalValidVsLock == ~GoalValidVsLock

\* sanity / coverage goals (used as "~Goal" invariants to obtain witnesses)
NoDecision   == \A a \in Corr : rs[a].decision = Nil
NoRound1     == \A a \in Corr : rs[a].round = 0
NoLock       == \A a \in Corr : rs[a].lockedV = Nil
=============================================================================
