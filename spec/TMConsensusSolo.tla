--------------------------- MODULE TMConsensusSolo ---------------------------
(* ONE correct node (TMConsensusNode) against a fully adversarial environment: every
   other validator is faulty, so sequences that only a > 1/3 coalition can produce are
   included (C02 quantifies over them).

   Threshold-event environment (DESIGN.md 5/C02).  A node's behaviour depends on a vote
   set only through "+2/3 for x" (first quorum) and "+2/3 of anything".  The adversary
   is two validators E1, E2 with power 2 each against the node's power 1 (total 5,
   quorum 4): E1+E2 reach every threshold on their own, one of them plus the node reaches
   none.  A lone adversarial vote therefore only fills a slot and commutes with
   everything; the environment delivers adversarial votes in PAIRS:
       EnvPair(t, r, x, x)  = "+2/3 for x" appears in (t, r)        (x may be nil)
       EnvPair(t, r, x, y)  = "+2/3 any, no majority" appears        (x # y)
   which is the threshold-event abstraction expressed with the explicit votes of
   TMConsensusNode, so the node's rules are literally the same operators that are
   validated against the real code.  The node's own votes go through its own queue and
   re-trigger the step logic exactly as in the code.
*)
EXTENDS TMConsensusNode

CONSTANTS
  Me,            \* the correct node
  Adv,           \* <<E1, E2>> the two adversarial validators
  EnvValues,     \* blocks the adversary can propose / vote for
  NoEnv          \* exploration bias for simulation: environment events that are switched off
                 \* ("commit" = no +2/3 precommits for a block, so behaviours run through many rounds);
                 \* {} in every exhaustive configuration

VARIABLES
  s, inq,
  sig,     \* ghost: what the key signed per (type, round): [v, pol] or NoSig
  lock,    \* ghost: the most recent non-nil precommit [r, v]
  have,    \* ghost: blocks whose content the node possesses (created or fully received)
  bad,     \* ghost: names of C02 clauses found violated at the moment of signing
  act,
  hist     \* the schedule so far (sequence of act records); not in the VIEW: every distinct state keeps
           \* the first path TLC found to it, which is what the coverage witnesses export
vars == <<s, inq, sig, lock, have, bad, act, hist>>

E1 == Adv[1]
E2 == Adv[2]
ASSUME Vals = {Me, E1, E2} /\ PowerOf[Me] = 1 /\ PowerOf[E1] = 2 /\ PowerOf[E2] = 2

AllValues == (IF \E r \in Rounds : Proposer(r) = Me THEN {FreshValue(Me)} ELSE {}) \cup EnvValues
AnyRep1 == Nil                                  \* canonical representative of an "any" pair
AnyRep2 == IF \E v \in EnvValues : Valid(v) THEN CHOOSE v \in EnvValues : Valid(v) ELSE CHOOSE v \in EnvValues : TRUE

NoMsg == [t |-> "-", src |-> "-", r |-> -1, v |-> "-", pol |-> -2]
NoSig == [v |-> None, pol |-> -3]
SigKeys == {"proposal", "prevote", "precommit"} \X Rounds

PolkasOf(x) == {[r |-> r, v |-> Maj23(x.pv[r])] : r \in {q \in Rounds : HasMaj23(x.pv[q])}}

RECURSIVE OutToMsgs(_)
OutToMsgs(out) ==
  IF out = << >> THEN << >> ELSE
  LET h == Head(out) IN
  IF h.t = "sched" THEN OutToMsgs(Tail(out))
  ELSE IF h.t = "proposal"
       THEN <<[t |-> "proposal", src |-> Me, r |-> h.r, v |-> h.v, pol |-> h.pol],
              [t |-> "block", src |-> "-", r |-> -1, v |-> h.v, pol |-> -2]>> \o OutToMsgs(Tail(out))
  ELSE <<[t |-> h.t, src |-> Me, r |-> h.r, v |-> h.v, pol |-> -2]>> \o OutToMsgs(Tail(out))

\* C02 clauses evaluated for ONE signature o made with polkas `pk`, possession `hv`,
\* previous signatures `sg` and current lock `lk`
SigBad(o, pk, hv, sg, lk) ==
     (IF sg[<<o.t, o.r>>] # NoSig /\ sg[<<o.t, o.r>>] # [v |-> o.v, pol |-> o.pol] THEN {"NoEquivocation"} ELSE {})
  \* "holds that block": the block, under whatever part-set encoding; the polka is for exactly the BlockID precommitted
  \cup (IF o.t = "precommit" /\ o.v # Nil /\ ~((\E h \in hv : SameBlock(h, o.v)) /\ [r |-> o.r, v |-> o.v] \in pk)
        THEN {"PrecommitJustified"} ELSE {})
  \cup (IF o.t = "prevote" /\ lk.v # Nil /\ lk.r < o.r /\ ~SameBlock(o.v, lk.v)
           /\ ~(\E q \in pk : q.r > lk.r /\ q.r <= o.r /\ ~SameBlock(q.v, lk.v))
        THEN {"LockRespected"} ELSE {})
  \cup (IF o.t = "proposal" /\ o.pol >= 0 /\ ~(\E q \in pk : q.r = o.pol /\ SameBlock(q.v, o.v))
        THEN {"ProposalCarriesValid"} ELSE {})

\* fold over the signatures of one step, in signing order: [sig, lock, bad]
RECURSIVE FoldSigs(_, _, _, _)
FoldSigs(out, pk, hv, acc) ==
  IF out = << >> THEN acc
  ELSE LET o == Head(out) IN
       IF o.t = "sched" THEN FoldSigs(Tail(out), pk, hv, acc)
       ELSE FoldSigs(Tail(out), pk, hv,
              [sig  |-> [acc.sig EXCEPT ![<<o.t, o.r>>] = [v |-> o.v, pol |-> o.pol]],
               lock |-> IF o.t = "precommit" /\ o.v # Nil THEN [r |-> o.r, v |-> o.v] ELSE acc.lock,
               bad  |-> acc.bad \cup SigBad(o, pk, hv, acc.sig, acc.lock)])

Init ==
  /\ s = InitNode
  /\ inq = << >>
  /\ sig = [k \in SigKeys |-> NoSig]
  /\ lock = [r |-> -1, v |-> Nil]
  /\ have = {}
  /\ bad = {}
  /\ act = [name |-> "Init", m |-> NoMsg, m2 |-> NoMsg, k |-> "-"]
  /\ hist = << >>

\* pre2 = the pre-state with the triggering vote(s) recorded (what the node had seen when it signed)
Install(pre2, s2) ==
  LET own == {s2.out[k].v : k \in {j \in DOMAIN s2.out : s2.out[j].t = "proposal"}}
      hv  == have \cup own \cup ({s2.propBlock} \ {Nil})
      f   == FoldSigs(s2.out, PolkasOf(pre2), hv, [sig |-> sig, lock |-> lock, bad |-> bad])
  IN /\ s' = ClearOut(s2)
     /\ have' = hv
     /\ sig' = f.sig /\ lock' = f.lock /\ bad' = f.bad
     /\ inq' = (IF act'.name = "ProcessInternal" THEN Tail(inq) ELSE inq) \o OutToMsgs(s2.out)
     /\ hist' = Append(hist, act')

\* state with the vote of message m recorded but no step logic run (for the ghost data)
WithVote(x, m) == IF m.t \in {"prevote", "precommit"} THEN AddVote(x, m.t, m.r, m.src, m.v, m.src).s ELSE x

EnvPair(t, r, x, y) ==
  /\ s.height = 1 /\ ~Dead(s)
  /\ (IF t = "prevote" THEN s.pv[r] ELSE s.pc[r]).votes[E1] = None
  /\ (IF t = "prevote" THEN s.pv[r] ELSE s.pc[r]).votes[E2] = None
  /\ LET m1 == [t |-> t, src |-> E1, r |-> r, v |-> x, pol |-> -2]
         m2 == [t |-> t, src |-> E2, r |-> r, v |-> y, pol |-> -2]
         a  == HandleMsg(Me, s, m1, E1)
         b  == HandleMsg(Me, a, m2, E2) IN
     /\ act' = [name |-> "EnvPair", m |-> m1, m2 |-> m2, k |-> "-"]
     /\ Install(WithVote(WithVote(s, m1), m2), b)

EnvProposal(r, v, pol) ==
  /\ s.height = 1 /\ ~Dead(s)
  /\ Proposer(r) # Me
  /\ LET m == [t |-> "proposal", src |-> Proposer(r), r |-> r, v |-> v, pol |-> pol]
         b == HandleMsg(Me, s, m, Proposer(r)) IN
     /\ b # s
     /\ act' = [name |-> "Deliver", m |-> m, m2 |-> NoMsg, k |-> "-"]
     /\ Install(s, b)

EnvBlock(v) ==
  /\ s.height = 1 /\ ~Dead(s)
  /\ LET m == [t |-> "block", src |-> "-", r |-> -1, v |-> v, pol |-> -2]
         b == HandleMsg(Me, s, m, Me) IN
     /\ b # s
     /\ act' = [name |-> "Deliver", m |-> m, m2 |-> NoMsg, k |-> "-"]
     /\ Install(s, b)

ProcessInternal ==
  /\ inq # << >>
  /\ LET m == Head(inq)
         b == HandleMsg(Me, s, m, Me) IN
     /\ act' = [name |-> "ProcessInternal", m |-> m, m2 |-> NoMsg, k |-> "-"]
     /\ Install(WithVote(s, m), b)

TimeoutEnabled(x, k) ==
  /\ x.height = 1 /\ ~Dead(x)
  /\ CASE k = "NewHeight"     -> x.step = StNewHeight
       [] k = "Propose"       -> x.step = StPropose
       [] k = "PrevoteWait"   -> x.step = StPrevoteWait
       [] k = "PrecommitWait" -> x.ttp /\ x.step < StCommit
       [] OTHER -> FALSE

Timeout(k) ==
  /\ TimeoutEnabled(s, k)
  /\ LET b == HandleTimeout(Me, s, k, s.round) IN
     /\ b # s
     /\ act' = [name |-> "Timeout", m |-> [NoMsg EXCEPT !.r = s.round], m2 |-> NoMsg, k |-> k]
     /\ Install(s, b)

Next ==
  \/ \E t \in {"prevote", "precommit"}, r \in Rounds :
        \/ \E x \in AllValues \cup {Nil} : ~("commit" \in NoEnv /\ t = "precommit" /\ x # Nil) /\ EnvPair(t, r, x, x)
        \/ EnvPair(t, r, AnyRep1, AnyRep2)
  \/ \E r \in Rounds, v \in AllValues, pol \in -1..(MaxRound - 1) : EnvProposal(r, v, pol)
  \/ \E v \in AllValues : EnvBlock(v)
  \/ ProcessInternal
  \/ \E k \in {"NewHeight", "Propose", "PrevoteWait", "PrecommitWait"} : Timeout(k)

Spec == Init /\ [][Next]_vars

\* ------------------------------------------------------------------ properties (C02)
\* each clause is evaluated at the moment of signing (see SigBad) and latched in `bad`
NoEquivocation       == ~("NoEquivocation" \in bad)
PrecommitJustified   == ~("PrecommitJustified" \in bad)
LockRespected        == ~("LockRespected" \in bad)
ProposalCarriesValid == ~("ProposalCarriesValid" \in bad)
NoPanic == s.panic = "none"
View == <<s, inq, sig, lock, have, bad>>
\* ------------------------------------------------------------------ guided corridors (attack synthesis, DESIGN 4.3)
\* State constraints that restrict the adversary to the moves of one known attack pattern, so that TLC finds the
\* counterexample of a weakened spec breadth-first in seconds (random simulation needs > 25 min for these three).
\* Used ONLY with a Weak switch, to show that the clause is not vacuous and to obtain the attack schedule; a corridor
\* removes behaviours, so nothing is ever concluded from "no violation" inside one.
CB == "Z0"
CC == "Z1"
IsPair(t, r, x, y) == act.name = "EnvPair" /\ act.m.t = t /\ act.m.r = r /\ act.m.v = x /\ act.m2.v = y
CorridorCommon ==
  /\ (act.name = "EnvPair" /\ act.m.t = "precommit") => (act.m.v # act.m2.v /\ act.m.r = s.round)   \* +2/3 any, never a decision
  /\ (act.name = "Deliver" /\ act.m.t = "proposal") => act.m.r = s.round
\* RelockKeepsRound: lock B in round 0, miss the nil polka of round 1, re-lock B in round 2, THEN learn the round-1 polka
CorridorRelock ==
  /\ CorridorCommon
  /\ (act.name = "EnvPair" /\ act.m.t = "prevote") =>
        \/ IsPair("prevote", 0, CB, CB) \/ IsPair("prevote", 2, CB, CB)
        \/ (IsPair("prevote", 1, Nil, Nil) /\ lock.r = 2)
  /\ (act.name = "Deliver" /\ act.m.t = "proposal") => (act.m.pol = -1 /\ act.m.v = (IF act.m.r = 3 THEN CC ELSE CB))
\* UnlockOnOlderPolka: lock B in round 1, then learn a nil polka of round 0
CorridorOlder ==
  /\ CorridorCommon
  /\ (act.name = "EnvPair" /\ act.m.t = "prevote") =>
        \/ IsPair("prevote", 1, CB, CB)
        \/ (IsPair("prevote", 0, Nil, Nil) /\ lock.r = 1)
  /\ (act.name = "Deliver" /\ act.m.t = "proposal") => (act.m.pol = -1 /\ act.m.v = (IF act.m.r = 3 THEN CC ELSE CB))
\* PolProposalOverridesLock: lock B in round 0, then a proposal for C that names round 0 as its POL round
CorridorPol ==
  /\ CorridorCommon
  /\ (act.name = "EnvPair" /\ act.m.t = "prevote") => IsPair("prevote", 0, CB, CB)
  /\ (act.name = "Deliver" /\ act.m.t = "proposal") =>
        \/ (act.m.r = 0 /\ act.m.v = CB /\ act.m.pol = -1)
        \/ (act.m.r = 1 /\ act.m.v = CC /\ act.m.pol = 0)
\* ------------------------------------------------------------------ coverage goals (DESIGN 4.2 d)
\* Each goal names a guard outcome of the node's rules.  While TLC explores the model it prints, for
\* the first WitnessK states (per worker) that satisfy a goal, the schedule that led there; the check
\* replays these schedules on the real node (and continues them with random steps), so that every
\* listed rule is exercised on real code in every run — not only when a random walk happens to get there.
CONSTANT WitnessK
PrecommittedIn(r) == sig[<<"precommit", r>>]
Goal(g) ==
  CASE g = "lock"                 -> s.lockedV # Nil
    [] g = "locked_other_valid"   -> s.lockedV # Nil /\ s.propBlock \notin {Nil, s.lockedV} /\ Valid(s.propBlock)
                                       /\ s.round > s.lockedR /\ s.step >= StPrevote
    [] g = "locked_other_invalid" -> s.lockedV # Nil /\ s.propBlock \notin {Nil, s.lockedV} /\ ~Valid(s.propBlock)
                                       /\ s.round > s.lockedR /\ s.step >= StPrevote
    [] g = "locked_other_pol"     -> s.lockedV # Nil /\ s.prop # NoProp /\ s.prop.pol >= s.lockedR /\ s.prop.v # s.lockedV
                                       /\ s.propBlock = s.prop.v /\ ProposalComplete(s) /\ s.round > s.lockedR /\ s.step >= StPrevote
    [] g = "locked_no_proposal"   -> s.lockedV # Nil /\ s.propBlock = Nil /\ s.round > s.lockedR /\ s.step >= StPrevote
    [] g = "unlocked"             -> lock.v # Nil /\ s.lockedV = Nil /\ s.height = 1
    [] g = "relock_same"          -> \E r \in Rounds : r > 0 /\ PrecommittedIn(r).v \notin {None, Nil}
                                       /\ PrecommittedIn(r - 1).v = PrecommittedIn(r).v
    [] g = "lock_changed"         -> \E r1, r2 \in Rounds : r1 < r2 /\ PrecommittedIn(r1).v \notin {None, Nil}
                                       /\ PrecommittedIn(r2).v \notin {None, Nil, PrecommittedIn(r1).v}
    [] g = "polka_unheld"         -> \E r \in Rounds : PrecommittedIn(r).v = Nil /\ Maj23(s.pv[r]) \notin {None, Nil}
    [] g = "commit_wait_block"    -> s.step = StCommit /\ s.propBlock = Nil
    [] g = "decided_r0"           -> s.decision # Nil /\ s.lastCommit.r = 0
    [] g = "decided_later"        -> s.decision # Nil /\ s.lastCommit.r > 0
    [] g = "own_proposal_valid"   -> \E r \in Rounds : sig[<<"proposal", r>>].pol >= 0
    [] g = "own_proposal_fresh"   -> \E r \in Rounds : sig[<<"proposal", r>>] # NoSig /\ sig[<<"proposal", r>>].pol = -1
    [] g = "round_skip"           -> s.round >= 2 /\ sig[<<"prevote", s.round - 1>>] = NoSig
    [] g = "prevote_nil_invalid"  -> s.propBlock # Nil /\ ~Valid(s.propBlock) /\ sig[<<"prevote", s.round>>].v = Nil
    [] g = "ttp_early"            -> s.ttp /\ s.step <= StPrevote
    [] g = "pol_proposal_complete" -> s.prop # NoProp /\ s.prop.pol >= 0 /\ ProposalComplete(s)
    [] g = "valid_block_set"      -> s.validV # Nil /\ s.lockedV = Nil
    [] g = "panic"                -> s.panic # "none"
GoalNames == <<"lock", "locked_other_pol", "locked_other_valid", "locked_other_invalid", "locked_no_proposal", "unlocked", "relock_same",
               "lock_changed", "polka_unheld", "commit_wait_block", "decided_r0", "decided_later",
               "own_proposal_valid", "own_proposal_fresh", "round_skip", "prevote_nil_invalid", "ttp_early",
               "pol_proposal_complete", "valid_block_set", "panic">>
ASSUME \A i \in DOMAIN GoalNames : TLCSet(i, 0)
Witness ==
  \A i \in DOMAIN GoalNames :
     Goal(GoalNames[i]) =>
        (IF TLCGet(i) < WitnessK
         THEN TLCSet(i, TLCGet(i) + 1) /\ PrintT(<<"WITNESS", GoalNames[i], hist>>)
         ELSE TRUE)
=============================================================================
