------------------------------ MODULE TMEvidence ------------------------------
(* The evidence pool of evidence/pool.go and the admission predicate of evidence/verify.go
   as OPERATORS OVER VALUES (no variables), so that the design state machine
   (TMEvidencePool.tla) and the trace specification (trace/TMEvidenceTrace.tla) use the
   very same step functions and the very same property definitions.

   c  : context = chain facts + evidence universe (a record, see "context" below)
   p  : pool state (a record, see "pool state" below)
   a  : action descriptor (a record; name + arguments + results)

   Time unit: one second.  Heights 1..c.N have chain facts.

   ---- context -------------------------------------------------------------------------
   c.N, c.H0            heights with facts; LastBlockHeight of the state NewPool starts from
   c.names              all key names in ADDRESS order (ValidatorsByVotingPower tie-break)
   c.vals[h]            validator set of height h : record name -> power  (sm.Store.LoadValidators)
   c.time[h]            block time of height h   (BlockMeta.Header.Time)
   c.signed[h]          names with a non-absent signature in the chain's commit of height h
   c.params[h]          [A, D] = ConsensusParams.Evidence.MaxAgeNumBlocks / MaxAgeDuration of the
                        sm.State whose LastBlockHeight is h (the application may change them
                        through EndBlock at any height).  The limits IN FORCE in the pool are
                        those of the state passed to the last Update (or loaded by NewPool),
                        i.e. c.params[p.height]
   c.dv[id]             duplicate-vote items (types.DuplicateVoteEvidence), abstract fields:
                          h,hB,rA,rB,tA,tB  height/round/type of VoteA / VoteB
                          val,valB          signer of VoteA / VoteB;  blkA,blkB block ids
                          sigA,sigB         signature valid for the vote under the signer's key
                          power,total,time  ValidatorPower, TotalVotingPower, Timestamp
   c.lca[id]            light-client-attack items (types.LightClientAttackEvidence):
                          h (CommonHeight), ch, ctime (conflicting block height/time)
                          cvals (conflicting validator set), signers (for-block commit sigs),
                          sigok (FALSE: first signature of the commit is forged),
                          derive  "same"    = the chain's own header of ch
                                  "chain"   = deterministic fields of the chain's header, other data
                                  "lunatic" = different app hash (not derivable)
                          round, total, time, byz (sequence of [n, p])
   both kinds:          key (DB key class = height + Evidence.Hash), rank (DB iteration
                        order of the key), wsize (bytes the item adds to a proto EvidenceList),
                        basic (ValidateBasic passes, i.e. the item can reach the pool at all)
   c.pairs[q]           conflicting vote pairs consensus may report: h, val, dv (the item
                        NewDuplicateVoteEvidence yields from the chain facts of h), t, r, blkA,
                        blkB (vote type, round, the two blocks), late (what
                        it would yield with the validator set of h+1: an item id, = dv when the
                        sets agree on the signer, "nil" when the signer is not in that set)

   ---- pool state ----------------------------------------------------------------------
   p.pending            ids stored under the pending prefix (at most one id per key)
   p.committed          keys stored under the committed prefix
   p.list               the clist (ids, in order)
   p.size               the atomic counter evidenceSize (what Size() reports)
   p.buffer             consensusBuffer (pair ids, in order, repeats possible); a pair id stands for
                        (vote type, height, round, validator, {blockA, blockB})
   p.upd                an Update that has flushed the buffer, installed the new state and is in the
                        middle of markEvidenceAsCommitted: [on, to, ids, k, locked, rm] -- stopped right
                        before the k-th committed-marker write; locked: pendingMtx is held there (the
                        pending key of ids[k] is deleted and its marker is written in ONE critical
                        section); rm: keys it deleted from pending so far (clist cleaned at the end)
   p.durable            ghost: keys of the evidence of every block whose application is DURABLE, i.e.
                        the saved sm.State says the block is done (after a restart the handshake
                        replays a block only when the saved state is one behind the block store).
                        This is "committed before" in the statement's sense, whatever the pool's
                        own committed markers say
   p.reported           ghost: the SET of pairs consensus reported since the last Update / start
                        (what must become pending evidence, whatever the buffer did with it)
   p.height             pool.state.LastBlockHeight      (LastBlockTime = c.time[p.height])
   p.pruneH, p.pruneT   pruningHeight / pruningTime
   p.tip                height of the block store;  p.saved: height of the saved sm.State
   p.startH             height of the state NewPool loaded (ghost; only Weak_ExpiryUsesStartupParams reads
                        it, and only then Restart moves it, to keep the real model small)
   p.inflight           AddEvidence calls that passed the isPending/isCommitted look-ups and
                        have not verified+stored yet: set of [tk, id, h] (h: p.height then)
*)
EXTENDS Integers, Sequences, FiniteSets, TLC, SequencesExt

CONSTANTS
  Weak_ExpiryEither,       \* evidence counts as expired when EITHER age limit is exceeded
  Weak_NoCommittedCheck,   \* AddEvidence / CheckEvidence do not look at the committed markers
  Weak_SizeDoubleCount,    \* addPendingEvidence bumps evidenceSize even when the key exists   (S8, code before the fix)
  Weak_DupInBlockOK,       \* CheckEvidence has no duplicate-in-list check
  Weak_BufferDropped,      \* Update throws the consensus buffer away
  Weak_NoReloadOnRestart,  \* NewPool does not recount / reload pending evidence
  Weak_PendingSkipsExpiry, \* CheckEvidence trusts already-pending evidence without an expiry check (code before the fix)
  Weak_LateAddUnchecked,   \* the store step of AddEvidence does not re-check the committed marker (code before the fix)
  Weak_ExpiryUsesStartupParams, \* isExpired / pruning keep the age limits NewPool saw; Update never refreshes them
  Weak_UpdateAfterStateSave, \* state/execution.go ApplyBlock saves the state BEFORE it tells the pool which
                               \* evidence the block committed (a crash in between: no replay, no marker)
  Weak_CommittedMarkersDeferred, \* markEvidenceAsCommitted deletes the pending keys under the mutex but writes the
                               \* committed markers later, in one batch, after the mutex is released
  Weak_BufferDedupIgnoresVoteType, \* ReportConflictingVotes drops a pair when one with the same height, round,
                               \* validator and blocks is buffered -- although the vote TYPE differs
  Weak_BufferUsesCurrentValSet \* late conflicting votes (height below the one just decided) become evidence with the
                               \* validator set of the NEW state instead of the set of their own height

Max2(a, b) == IF a > b THEN a ELSE b     \* (Range comes with SequencesExt -> Functions)

RECURSIVE SumOver(_, _)
SumOver(f, S) == IF S = {} THEN 0
                 ELSE LET x == CHOOSE y \in S : TRUE IN f[x] + SumOver(f, S \ {x})
Total(v)  == SumOver(v, DOMAIN v)
Pow(v, S) == SumOver(v, S \cap DOMAIN v)

\* ------------------------------------------------------------------ chain facts
ClampH(c, h) == IF h < 1 THEN 1 ELSE IF h > c.N THEN c.N ELSE h
ValsAt(c, h) == c.vals[ClampH(c, h)]
TimeAt(c, h) == IF h < 1 THEN 0 ELSE IF h > c.N THEN c.time[c.N] + (h - c.N) ELSE c.time[h]
NameIdx(c, n) == CHOOSE i \in 1..Len(c.names) : c.names[i] = n

\* ------------------------------------------------------------------ universe
DvIds(c)  == DOMAIN c.dv
LcaIds(c) == DOMAIN c.lca
Ids(c)    == DvIds(c) \cup LcaIds(c)
IsDv(c, id)   == id \in DvIds(c)
Known(c, id)  == id \in Ids(c)
It(c, id)     == IF IsDv(c, id) THEN c.dv[id] ELSE c.lca[id]
KeyOf(c, id)  == IF Known(c, id) THEN It(c, id).key ELSE "k?" \o id
HOf(c, id)    == IF Known(c, id) THEN It(c, id).h ELSE 0
TOf(c, id)    == IF Known(c, id) THEN It(c, id).time ELSE 0      \* Evidence.Time(): the CLAIMED time
RankOf(c, id) == IF Known(c, id) THEN It(c, id).rank ELSE 0
WOf(c, id)    == IF Known(c, id) THEN It(c, id).wsize ELSE 0
Keys(c)       == {KeyOf(c, id) : id \in Ids(c)}

PendingKeys(c, p)  == {KeyOf(c, x) : x \in p.pending}
IsPendingKey(c, p, k) == \E x \in p.pending : KeyOf(c, x) = k
\* DB iteration order of the pending prefix
PendingSeq(c, p) == SetToSortSeq(p.pending, LAMBDA x, y : RankOf(c, x) < RankOf(c, y))

\* ------------------------------------------------------------------ store availability
HaveMeta(p, h)   == h >= 1 /\ h <= p.tip       \* BlockStore.LoadBlockMeta
HaveCommit(p, h) == h >= 1 /\ h < p.tip        \* BlockStore.LoadBlockCommit: stored with block h+1

\* ------------------------------------------------------------------ expiry (pool.go isExpired, verify.go verify)
ParamsAt(c, H) == c.params[ClampH(c, H)]
ExpiredWith(c, pr, H, h, t) ==
  LET ageB == H - h
      ageD == TimeAt(c, H) - t
  IN IF Weak_ExpiryEither THEN ageB > pr.A \/ ageD > pr.D
                          ELSE ageB > pr.A /\ ageD > pr.D
\* verify.go: state = evpool.State(); limits and clock of that state (height H)
ExpiredAt(c, H, h, t) == ExpiredWith(c, ParamsAt(c, H), H, h, t)
\* pool.go isExpired / removeExpiredPendingEvidence: evpool.State() again, i.e. the limits of
\* the state of the last Update -- they change whenever the application changes them
PoolParams(c, p) == ParamsAt(c, IF Weak_ExpiryUsesStartupParams THEN p.startH ELSE p.height)
Expired(c, p, h, t) == ExpiredWith(c, PoolParams(c, p), p.height, h, t)
\* the statement's notion, never weakened: BOTH limits of the state of height H exceeded
ExpiredBoth(c, H, h, t) == H - h > ParamsAt(c, H).A /\ TimeAt(c, H) - t > ParamsAt(c, H).D

\* ------------------------------------------------------------------ verify.go VerifyDuplicateVote
DvProves(c, d) ==
  LET vs == ValsAt(c, d.h) IN
  /\ d.val \in DOMAIN vs
  /\ d.h = d.hB /\ d.rA = d.rB /\ d.tA = d.tB
  /\ d.val = d.valB
  /\ d.blkA # d.blkB
  /\ d.power = vs[d.val]
  /\ d.total = Total(vs)
  /\ d.sigA /\ d.sigB

\* ------------------------------------------------------------------ verify.go VerifyLightClientAttack
\* height of the header the pool compares with: the block at ch, or -- forward lunatic -- its latest one
TrustedH(p, l) == IF l.ch <= p.tip THEN l.ch ELSE p.tip
\* LightClientAttackEvidence.ConflictingHeaderIsInvalid(trusted.Header)
HdrInvalid(c, l, th) ==
  IF th = l.ch /\ l.ch <= c.N
  THEN ~(l.derive \in {"same", "chain"} /\ l.cvals = ValsAt(c, l.ch))
  ELSE TRUE
SameHash(c, l, th) ==
  th = l.ch /\ l.ch <= c.N /\ l.derive = "same" /\ l.cvals = ValsAt(c, l.ch) /\ l.ctime = TimeAt(c, l.ch)
ChainSigned(c, h) == IF h >= 1 /\ h <= c.N THEN Range(c.signed[h]) ELSE {}

\* ValidatorsByVotingPower: power descending, address ascending
ByPower(c, v, S) ==
  LET s == SetToSortSeq(S, LAMBDA x, y : v[x] > v[y] \/ (v[x] = v[y] /\ NameIdx(c, x) < NameIdx(c, y)))
  IN [i \in 1..Len(s) |-> [n |-> s[i], p |-> v[s[i]]]]

\* LightClientAttackEvidence.GetByzantineValidators(commonVals, trusted)
ExpectedByz(c, p, l) ==
  LET cv == ValsAt(c, l.h)
      th == TrustedH(p, l)
      S  == Range(l.signers)
  IN IF HdrInvalid(c, l, th) THEN ByPower(c, cv, S \cap DOMAIN cv)                    \* lunatic
     ELSE IF l.round = 0 THEN ByPower(c, l.cvals, S \cap ChainSigned(c, th) \cap DOMAIN l.cvals)  \* equivocation
     ELSE << >>                                                                       \* amnesia

LcaProves(c, p, l) ==
  LET cv == ValsAt(c, l.h)
      th == TrustedH(p, l)
      S  == Range(l.signers)
  IN /\ l.ch >= l.h
     /\ (l.ch > p.tip => TimeAt(c, th) >= l.ctime)
     /\ IF l.h # l.ch
        THEN 3 * Pow(cv, S) > Total(cv)              \* VerifyCommitLightTrusting(1/3) from the common set
        ELSE ~HdrInvalid(c, l, th)                   \* equivocation / amnesia: correctly derived
     /\ l.sigok
     /\ S \subseteq DOMAIN l.cvals
     /\ 3 * Pow(l.cvals, S) > 2 * Total(l.cvals)     \* VerifyCommitLight by the conflicting set
     /\ l.total = Total(cv)
     /\ IF l.ch > th /\ l.ctime > TimeAt(c, th) THEN FALSE ELSE ~SameHash(c, l, th)
     /\ l.byz = ExpectedByz(c, p, l)

\* ------------------------------------------------------------------ the statement's predicate
\* "proves the misbehaviour it claims against the validator set and block time of its height"
Proves(c, p, id) ==
  /\ Known(c, id)
  /\ HaveMeta(p, HOf(c, id))
  /\ TOf(c, id) = TimeAt(c, HOf(c, id))
  /\ IF IsDv(c, id) THEN DvProves(c, c.dv[id]) ELSE LcaProves(c, p, c.lca[id])

\* admissible at pool state p: proves, not expired by BOTH limits, not committed.
\* H is the height of the sm.State the freshness is judged against: p.height, except for the
\* store step of an AddEvidence call that read the state before another call moved it on.
AdmissibleAt(c, p, id, H) ==
  /\ Proves(c, p, id)
  /\ ~ExpiredBoth(c, H, HOf(c, id), TimeAt(c, HOf(c, id)))
  /\ KeyOf(c, id) \notin p.committed
  /\ KeyOf(c, id) \notin p.durable       \* in a block of the chain this node has applied
Admissible(c, p, id) == AdmissibleAt(c, p, id, p.height)

\* ------------------------------------------------------------------ what verify() computes (Pool.verify)
\* = the statement's predicate plus the availability rules and quirks of the code:
\*   * a signed header needs LoadBlockCommit, which the block store has only below its tip, so
\*     light-client-attack evidence waits one block, and the forward-lunatic fallback
\*     (getSignedHeader(blockStore.Height())) can never succeed;
\*   * evidence decoded from protobuf has a non-nil empty ByzantineValidators slice, which
\*     validateABCIEvidence rejects when it expects nil (amnesia): named deviation.
CodeVerifyAt(c, p, id, H) ==
  /\ Known(c, id)
  /\ HaveMeta(p, HOf(c, id))
  /\ TOf(c, id) = TimeAt(c, HOf(c, id))
  /\ ~ExpiredAt(c, H, HOf(c, id), TimeAt(c, HOf(c, id)))
  /\ IF IsDv(c, id) THEN DvProves(c, c.dv[id])
     ELSE LET l == c.lca[id] IN
          /\ HaveCommit(p, l.h)
          /\ (l.h # l.ch => HaveCommit(p, l.ch))
          /\ LcaProves(c, p, l)
          /\ ExpectedByz(c, p, l) # << >>
CodeVerify(c, p, id) == CodeVerifyAt(c, p, id, p.height)

\* ------------------------------------------------------------------ pool.go addPendingEvidence / removePendingEvidence
\* (as repaired: the counter follows the key space; a committed key is not stored again)
AddPending(c, p, id, late) ==
  LET k == KeyOf(c, id) IN
  IF late /\ k \in p.committed /\ ~Weak_LateAddUnchecked
  THEN [p |-> p, added |-> FALSE, stored |-> FALSE]
  ELSE LET had == IsPendingKey(c, p, k) IN
       [p |-> [p EXCEPT !.pending = {x \in p.pending : KeyOf(c, x) # k} \cup {id},
                        !.size = IF had /\ ~Weak_SizeDoubleCount THEN @ ELSE @ + 1],
        added |-> ~had, stored |-> TRUE]

RemoveKeys(c, p, K) ==
  [p EXCEPT !.pending = {x \in p.pending : KeyOf(c, x) \notin K},
            !.size = @ - Cardinality({x \in p.pending : KeyOf(c, x) \in K}),
            !.list = SelectSeq(@, LAMBDA x : KeyOf(c, x) \notin K)]

\* ------------------------------------------------------------------ AddEvidence
\* part 1: the two look-ups; part 2 (maybe later, other calls in between): verify + store + clist
AddLookups(c, p, id) ==    \* TRUE: continues to verify
  LET k == KeyOf(c, id) IN
  ~IsPendingKey(c, p, k) /\ (Weak_NoCommittedCheck \/ k \notin p.committed)

\* H: height of the state verify() read (evpool.State() is the first thing it does)
AddFinish(c, p, id, H) ==
  IF ~CodeVerifyAt(c, p, id, H) THEN [p |-> p, res |-> "err", why |-> "verify"]
  ELSE LET r == AddPending(c, p, id, TRUE) IN
       \* (before the fix the clist got the item whenever the DB write succeeded)
       [p |-> IF r.added \/ (r.stored /\ Weak_SizeDoubleCount) THEN [r.p EXCEPT !.list = Append(@, id)] ELSE r.p,
        res |-> "ok", why |-> "none"]

AddEvidence(c, p, id) ==
  IF AddLookups(c, p, id) THEN AddFinish(c, p, id, p.height) ELSE [p |-> p, res |-> "ok", why |-> "none"]

\* ------------------------------------------------------------------ CheckEvidence
RECURSIVE CheckFrom(_, _, _, _)
CheckFrom(c, p, ids, i) ==
  IF i > Len(ids) THEN [p |-> p, res |-> "ok", why |-> "none"]
  ELSE
    LET id    == ids[i]
        k     == KeyOf(c, id)
        dup   == ~Weak_DupInBlockOK /\ \E j \in 1..(i - 1) : KeyOf(c, ids[j]) = k
        fresh == ~IsDv(c, id) \/ ~IsPendingKey(c, p, k)     \* light evidence is always re-verified
    IN IF fresh THEN
         IF k \in p.committed /\ ~Weak_NoCommittedCheck THEN [p |-> p, res |-> "err", why |-> "committed"]
         ELSE IF ~CodeVerify(c, p, id) THEN [p |-> p, res |-> "err", why |-> "verify"]
         ELSE LET p2 == AddPending(c, p, id, FALSE).p IN
              IF dup THEN [p |-> p2, res |-> "err", why |-> "duplicate"]
              ELSE CheckFrom(c, p2, ids, i + 1)
       ELSE \* already verified when it became pending; it may have aged since (lazy pruning)
         IF ~Weak_PendingSkipsExpiry /\ Expired(c, p, HOf(c, id), TOf(c, id))
         THEN [p |-> p, res |-> "err", why |-> "verify"]
         ELSE IF dup THEN [p |-> p, res |-> "err", why |-> "duplicate"]
         ELSE CheckFrom(c, p, ids, i + 1)
CheckEvidence(c, p, ids) == CheckFrom(c, p, ids, 1)

\* ------------------------------------------------------------------ ReportConflictingVotes
\* every look-up of logged data is guarded: an id the context does not know never is a TLC error
KnownPair(c, q) == q \in DOMAIN c.pairs
SameButType(c, q1, q2) ==
  /\ KnownPair(c, q1) /\ KnownPair(c, q2)
  /\ LET a == c.pairs[q1] b == c.pairs[q2] IN
     a.h = b.h /\ a.r = b.r /\ a.val = b.val /\ {a.blkA, a.blkB} = {b.blkA, b.blkB}
Report(c, p, q) ==
  LET drop == Weak_BufferDedupIgnoresVoteType /\ \E i \in DOMAIN p.buffer : SameButType(c, p.buffer[i], q)
  IN [p EXCEPT !.buffer = IF drop THEN @ ELSE Append(@, q), !.reported = @ \cup {q}]

\* ------------------------------------------------------------------ Update
\* processConsensusBuffer(state): votes of height <= the new height become evidence with the
\* chain's time and validator set of that height; NOT verified, NOT checked for expiry
\* votes of the height just decided: state.LastBlockTime / state.LastValidators;
\* LATE votes (q.h < to, e.g. a conflicting precommit arriving with the LastCommit):
\* blockStore.LoadBlockMeta(q.h).Header.Time / stateDB.LoadValidators(q.h).  Both are the facts
\* of q.h, so the item is q.dv.  (Weak: the late branch keeps the new state's validator set;
\* when the signer is not in it NewDuplicateVoteEvidence returns nil and isPending(nil) panics.)
FlushItem(c, q, to) == IF Weak_BufferUsesCurrentValSet /\ q.h < to THEN q.late ELSE q.dv
FlushPanics(c, p, to) ==
  Weak_BufferUsesCurrentValSet /\ ~Weak_BufferDropped
  /\ \E i \in DOMAIN p.buffer : KnownPair(c, p.buffer[i]) /\ c.pairs[p.buffer[i]].h < to /\ c.pairs[p.buffer[i]].late = "nil"
RECURSIVE FlushFrom(_, _, _, _)
FlushFrom(c, p, to, i) ==
  IF i > Len(p.buffer) THEN p
  ELSE IF ~KnownPair(c, p.buffer[i]) THEN FlushFrom(c, p, to, i + 1)
  ELSE LET q  == c.pairs[p.buffer[i]]
           id == FlushItem(c, q, to)
           k  == KeyOf(c, id)
       IN IF q.h > to \/ IsPendingKey(c, p, k) \/ k \in p.committed
          THEN FlushFrom(c, p, to, i + 1)
          ELSE LET r == AddPending(c, p, id, FALSE) IN
               FlushFrom(c, [r.p EXCEPT !.list = Append(@, id)], to, i + 1)
ProcessBuffer(c, p, to) ==
  [(IF Weak_BufferDropped THEN p ELSE FlushFrom(c, p, to, 1)) EXCEPT !.buffer = << >>, !.reported = {}]

\* markEvidenceAsCommitted
MarkCommitted(c, p, ids) ==
  LET K == {KeyOf(c, ids[i]) : i \in DOMAIN ids} IN
  [RemoveKeys(c, p, K \cap PendingKeys(c, p)) EXCEPT !.committed = @ \cup K]

\* removeExpiredPendingEvidence: oldest first, stops at the first item that has not expired
RECURSIVE PruneFrom(_, _, _, _)
PruneFrom(c, p, s, i) ==
  IF i > Len(s) THEN [p EXCEPT !.pruneH = p.height, !.pruneT = TimeAt(c, p.height)]
  ELSE LET id == s[i] IN
       IF ~Expired(c, p, HOf(c, id), TOf(c, id))
       THEN [p EXCEPT !.pruneH = HOf(c, id) + PoolParams(c, p).A + 1, !.pruneT = TOf(c, id) + PoolParams(c, p).D + 1]
       ELSE PruneFrom(c, RemoveKeys(c, p, {KeyOf(c, id)}), s, i + 1)
Prune(c, p) == PruneFrom(c, p, PendingSeq(c, p), 1)

PruneGate(c, p, to) ==
  IF p.size > 0 /\ to > p.pruneH /\ TimeAt(c, to) > p.pruneT THEN Prune(c, p) ELSE p

Update(c, p, to, ids, crash) ==
  LET p0 == [p EXCEPT !.tip = Max2(@, to)]
      p1 == ProcessBuffer(c, p0, to)
      p2 == [p1 EXCEPT !.height = to, !.saved = IF crash THEN @ ELSE Max2(@, to),
                       !.durable = IF crash THEN @ ELSE @ \cup {KeyOf(c, ids[i]) : i \in DOMAIN ids}]
      p3 == MarkCommitted(c, p2, ids)
  IN PruneGate(c, p3, to)

\* ---- the end of BlockExecutor.ApplyBlock (state/execution.go), at the grain of its persistence
\* steps.  The block is in the block store (consensus saved it); then
\*     evpool.Update(state, block.Evidence)   -- pool: markers, pending keys, new state (volatile)
\*     store.Save(state)                      -- the state says "block done"
\* A crash may fall between the two.  Update with crash = TRUE is the first step alone;
\* SaveState is the second.  Because the markers are durable BEFORE the state is, a restart
\* either replays the block (state one behind the block store: Update again, idempotent) or
\* finds the markers.
SaveState(c, p, to, ids) ==
  [p EXCEPT !.tip = Max2(@, to), !.saved = Max2(@, to),
            !.durable = @ \cup {KeyOf(c, ids[i]) : i \in DOMAIN ids}]

\* ---- Update at the grain of markEvidenceAsCommitted, so that calls of other goroutines
\*      (AddEvidence of a gossiping peer, PendingEvidence, ...) can fall in between.
\* Per item of the block, IN ONE CRITICAL SECTION of pendingMtx: delete the pending key, write
\* the committed marker.  addPendingEvidence takes the same mutex and re-checks the marker, so
\* "not pending and not committed" is never visible to a store step for an item being committed.
NoUpd == [on |-> FALSE, to |-> 0, ids |-> << >>, k |-> 0, locked |-> FALSE, rm |-> {}]
KeysOfIds(c, ids) == {KeyOf(c, ids[i]) : i \in DOMAIN ids}
RemovePendingOnly(c, p, K) ==
  [p EXCEPT !.pending = {x \in p.pending : KeyOf(c, x) \notin K},
            !.size = @ - Cardinality({x \in p.pending : KeyOf(c, x) \in K})]
\* is there a k-th marker write to stop at?  (Weak: the only marker write is the batch, after the loop)
Pausable(ids, k) == IF Weak_CommittedMarkersDeferred THEN k = 1 /\ Len(ids) >= 1 ELSE k >= 1 /\ k <= Len(ids)

UpdateBegin(c, p, to, ids, k) ==
  IF ~Pausable(ids, k) THEN Update(c, p, to, ids, FALSE)
  ELSE
    LET p0 == [p EXCEPT !.tip = Max2(@, to)]
        p1 == ProcessBuffer(c, p0, to)
        p2 == [p1 EXCEPT !.height = to]
    IN IF Weak_CommittedMarkersDeferred
       THEN LET K == KeysOfIds(c, ids) \cap PendingKeys(c, p2) IN
            [RemovePendingOnly(c, p2, K) EXCEPT !.upd = [on |-> TRUE, to |-> to, ids |-> ids, k |-> k, locked |-> FALSE, rm |-> K]]
       ELSE LET Kb == KeysOfIds(c, SubSeq(ids, 1, k - 1))
                rb == Kb \cap PendingKeys(c, p2)
                p3 == [RemovePendingOnly(c, p2, rb) EXCEPT !.committed = @ \cup Kb]
                rk == {KeyOf(c, ids[k])} \cap PendingKeys(c, p3)
            IN [RemovePendingOnly(c, p3, rk) EXCEPT !.upd = [on |-> TRUE, to |-> to, ids |-> ids, k |-> k, locked |-> TRUE, rm |-> rb \cup rk]]

UpdateEnd(c, p) ==
  LET u == p.upd
      Kr == IF Weak_CommittedMarkersDeferred THEN {} ELSE KeysOfIds(c, SubSeq(u.ids, u.k + 1, Len(u.ids)))
      rr == Kr \cap PendingKeys(c, p)
      pm == [RemovePendingOnly(c, p, rr) EXCEPT !.committed = @ \cup KeysOfIds(c, u.ids)]
      rm == u.rm \cup rr
      pl == [pm EXCEPT !.list = SelectSeq(@, LAMBDA x : KeyOf(c, x) \notin rm), !.saved = Max2(@, u.to), !.upd = NoUpd,
                       !.durable = @ \cup KeysOfIds(c, u.ids)]
  IN PruneGate(c, pl, u.to)

\* would a store step (addPendingEvidence) have to wait for the committing goroutine?
StoreLocked(p) == p.upd.on /\ p.upd.locked
AddBlocks(c, p, id) == StoreLocked(p) /\ AddLookups(c, p, id) /\ CodeVerify(c, p, id)

\* ------------------------------------------------------------------ PendingEvidence(maxBytes)
RECURSIVE TakeFrom(_, _, _, _, _)
TakeFrom(c, s, mb, i, acc) ==
  IF i > Len(s) THEN [got |-> s, bytes |-> acc]
  ELSE IF mb # -1 /\ acc + WOf(c, s[i]) > mb THEN [got |-> SubSeq(s, 1, i - 1), bytes |-> acc]
  ELSE TakeFrom(c, s, mb, i + 1, acc + WOf(c, s[i]))
PendingEvidence(c, p, mb) ==
  IF p.size = 0 THEN [got |-> << >>, bytes |-> 0] ELSE TakeFrom(c, PendingSeq(c, p), mb, 1, 0)

\* ------------------------------------------------------------------ NewPool (restart)
Restart(c, p) ==
  LET p1 == [p EXCEPT !.height = p.saved, !.startH = IF Weak_ExpiryUsesStartupParams THEN p.saved ELSE @, !.buffer = << >>, !.reported = {}, !.inflight = {}, !.list = << >>, !.upd = NoUpd]
      p2 == Prune(c, p1)
  IN IF Weak_NoReloadOnRestart THEN [p2 EXCEPT !.size = 0]
     ELSE [p2 EXCEPT !.size = Cardinality(p2.pending), !.list = PendingSeq(c, p2)]

InitPool(c) ==
  [pending |-> {}, committed |-> {}, list |-> << >>, size |-> 0, buffer |-> << >>,
   height |-> c.H0, pruneH |-> c.H0, pruneT |-> TimeAt(c, c.H0), tip |-> c.H0, saved |-> c.H0,
   inflight |-> {}, startH |-> c.H0, reported |-> {}, upd |-> NoUpd, durable |-> {}]

\* ------------------------------------------------------------------ one step, by action descriptor
\* a.name in Add | Check | Report | Update | Pending | Restart | AddBegin | AddEnd
Ticket(p, tk)   == CHOOSE x \in p.inflight : x.tk = tk
TicketId(p, tk) == Ticket(p, tk).id
HasTicket(p, tk) == \E x \in p.inflight : x.tk = tk

RECURSIVE LateFrom(_, _, _, _)
LateFrom(c, p, late, i) ==
  IF i > Len(late) THEN p
  ELSE IF ~HasTicket(p, late[i].tk) THEN LateFrom(c, p, late, i + 1)
  ELSE LET t == Ticket(p, late[i].tk)
           r == AddFinish(c, p, t.id, t.h)
       IN LateFrom(c, [r.p EXCEPT !.inflight = {x \in @ : x.tk # t.tk}], late, i + 1)

Step(c, p, a) ==
  CASE a.name = "Add"     -> AddEvidence(c, p, a.id)
    [] a.name = "Check"   -> CheckEvidence(c, p, a.ids)
    [] a.name = "Report"  -> [p |-> Report(c, p, a.pair), res |-> "ok", why |-> "none"]
    [] a.name = "SaveState" -> [p |-> SaveState(c, p, a.to, a.ids), res |-> "ok", why |-> "none"]
    [] a.name = "Update"  ->
         IF FlushPanics(c, p, a.to)     \* the block is in the block store, the pool call never returns
         THEN [p |-> [p EXCEPT !.tip = Max2(@, a.to)], res |-> "panic", why |-> "none"]
         ELSE [p |-> Update(c, p, a.to, a.ids, a.crash), res |-> "ok", why |-> "none"]
    [] a.name = "UpdateBegin" ->
         IF FlushPanics(c, p, a.to)
         THEN [p |-> [p EXCEPT !.tip = Max2(@, a.to)], res |-> "panic", why |-> "none"]
         ELSE [p |-> UpdateBegin(c, p, a.to, a.ids, a.k), res |-> "ok", why |-> "none"]
    [] a.name = "UpdateEnd" ->
         \* a.late: tickets of AddEvidence calls that waited for pendingMtx and went on when the
         \* committing goroutine released it; their store steps commute with the rest of Update
         IF p.upd.on THEN [p |-> LateFrom(c, UpdateEnd(c, p), a.late, 1), res |-> "ok", why |-> "none"]
         ELSE [p |-> p, res |-> "ok", why |-> "none"]
    [] a.name = "Pending" -> [p |-> p, res |-> "ok", why |-> "none"]
    [] a.name = "Restart" -> [p |-> Restart(c, p), res |-> "ok", why |-> "none"]
    [] a.name = "AddBegin" ->
         IF AddLookups(c, p, a.id)
         THEN [p |-> [p EXCEPT !.inflight = @ \cup {[tk |-> a.tk, id |-> a.id, h |-> p.height]}], res |-> "ok", why |-> "none"]
         ELSE [p |-> p, res |-> "ok", why |-> "none"]
    [] a.name = "AddEnd"  ->
         IF HasTicket(p, a.tk)
         THEN LET id == TicketId(p, a.tk)
                  r  == AddFinish(c, p, id, Ticket(p, a.tk).h)
              IN [p |-> [r.p EXCEPT !.inflight = {x \in @ : x.tk # a.tk}], res |-> r.res, why |-> r.why]
         ELSE [p |-> p, res |-> "ok", why |-> "none"]
    [] OTHER -> [p |-> p, res |-> "ok", why |-> "none"]

\* ==================================================================== PROPERTIES (C11)
\* Each operator returns the set of names of the properties that FAIL, so that the design
\* spec (must be {}) and the trace spec (reported as violations) share one definition.

\* --- on a state
StateViol(c, p) ==
     (IF p.size # Cardinality(p.pending) THEN {"SizeExact"} ELSE {})
\cup (IF \E x, y \in p.pending : x # y /\ KeyOf(c, x) = KeyOf(c, y) THEN {"OneItemPerKey"} ELSE {})
\cup (IF \E x \in p.pending : KeyOf(c, x) \in p.committed THEN {"OnceOnly"} ELSE {})
\cup (IF \E x \in p.pending : ~Known(c, x) THEN {"UnknownPending"} ELSE {})

\* --- state properties judged on a step: reported where they BREAK (or break further), not
\*     on every later state that inherits the damage
Gap(p) == p.size - Cardinality(p.pending)
StateStepViol(c, p, q) ==
     (IF Gap(q) # 0 /\ Gap(q) # Gap(p) THEN {"SizeExact"} ELSE {})
\cup ((StateViol(c, q) \ StateViol(c, p)) \ {"SizeExact"})

IsUpd(a)    == a.name \in {"Update", "UpdateBegin", "UpdateEnd"}
IsUpdEnd(a) == a.name \in {"Update", "UpdateEnd"}
LateTks(a)  == IF a.name = "UpdateEnd" THEN {a.late[i].tk : i \in DOMAIN a.late} ELSE {}

\* ids whose stored value is new in q (new key, or same key with another value)
NewIn(p, q) == q.pending \ p.pending
GoneKeys(c, p, q) == PendingKeys(c, p) \ PendingKeys(c, q)

\* --- on a step  p --a--> q   (a carries the OBSERVED results in the trace spec)
StepViol(c, p, q, a) ==
  LET new  == NewIn(p, q)
      gone == GoneKeys(c, p, q)
      expiredAtQ(k) == \A x \in p.pending : KeyOf(c, x) = k => ExpiredBoth(c, q.height, HOf(c, x), TOf(c, x))
  IN
  \* admission: whatever enters the pool is admissible (state at the call; for the store step
  \* of a concurrent AddEvidence: the state at that step)
     (IF a.name \in {"Add", "Check"} /\ \E x \in new : ~Admissible(c, p, x)
        THEN {"AdmitOnlyAdmissible"} ELSE {})
\cup (IF a.name = "AddEnd" /\ \E x \in new : ~(HasTicket(p, a.tk) /\ AdmissibleAt(c, p, x, Ticket(p, a.tk).h))
        THEN {"AdmitOnlyAdmissible"} ELSE {})
  \* ... and nothing else puts evidence there, except the consensus buffer at Update
\cup (IF a.name \in {"Report", "Pending", "Restart", "AddBegin"} /\ new # {} THEN {"AdmitOnlyAdmissible"} ELSE {})
  \* ... and that evidence is the one the reported votes prove against the validator set and
  \* block time of THEIR height (also for votes reported late, after the set has changed)
  \* (or, when the mutex is released, the store step of an AddEvidence that waited for it)
\cup (IF IsUpd(a) /\ \E x \in new :
            /\ ~\E t \in p.inflight : t.tk \in LateTks(a) /\ t.id = x /\ AdmissibleAt(c, q, x, t.h)
            /\ \/ ~\E r \in p.reported \cup Range(p.buffer) : KnownPair(c, r) /\ c.pairs[r].dv = x /\ c.pairs[r].h <= q.height
               \/ ~Proves(c, q, x)
        THEN {"AdmitOnlyAdmissible"} ELSE {})
  \* a call that panics neither admits / refuses evidence nor turns reported votes into evidence
\cup (IF a.res = "panic" THEN {"NoPanic"} ELSE {})
  \* the "if" direction for genuine fresh items the code can verify
\cup (IF a.name = "Add" /\ Known(c, a.id) /\ Admissible(c, p, a.id) /\ CodeVerify(c, p, a.id)
         /\ ~(a.res = "ok" /\ IsPendingKey(c, q, KeyOf(c, a.id)))
        THEN {"AdmitGenuine"} ELSE {})
  \* accepted inside a block: every item admissible, no key twice, none committed
\cup (IF a.name = "Check" /\ a.res = "ok" /\
         (\/ \E i \in DOMAIN a.ids : ~Admissible(c, p, a.ids[i])
          \/ \E i, j \in DOMAIN a.ids : i # j /\ KeyOf(c, a.ids[i]) = KeyOf(c, a.ids[j]))
        THEN {"BlockCheck"} ELSE {})
  \* used once: PendingEvidence never offers a committed or repeated item
\cup (IF a.name = "Pending" /\
         (\/ \E i \in DOMAIN a.got : KeyOf(c, a.got[i]) \in p.committed \cup p.durable \/ a.got[i] \notin p.pending
          \/ \E i, j \in DOMAIN a.got : i # j /\ KeyOf(c, a.got[i]) = KeyOf(c, a.got[j]))
        THEN {"OnceOnly"} ELSE {})
  \* nothing leaves the pool except by commit or expiry (both limits, judged at the new state)
\cup (IF a.name \in {"Add", "Check", "Report", "Pending", "AddBegin", "AddEnd"} /\ gone # {}
        THEN {"PendingKept"} ELSE {})
\cup (IF IsUpd(a) /\ \E k \in gone : k \notin {KeyOf(c, a.ids[i]) : i \in DOMAIN a.ids} /\ ~expiredAtQ(k)
        THEN {"ExpiryBoth"} ELSE {})
\cup (IF a.name = "Restart" /\ \E k \in gone : ~expiredAtQ(k) THEN {"SurvivesRestart"} ELSE {})
  \* a restarted node that has nothing to replay (saved state = block store) knows every piece
  \* of evidence its chain has committed: none of it is pending, all of it is marked
\cup (IF a.name = "Restart" /\ q.saved = q.tip /\ ~(q.durable \subseteq q.committed) THEN {"OnceOnly"} ELSE {})
  \* conflicting votes of decided heights become pending evidence (or are already used up / out of date)
  \* -- EVERY DISTINCT pair reported: a prevote pair and a precommit pair of one validator in one
  \*    round are two pieces of evidence; repeats of one pair are one
\cup (IF IsUpd(a) /\ \E r \in p.reported \cup Range(p.buffer) :
            KnownPair(c, r) /\
            LET pr == c.pairs[r] k == KeyOf(c, pr.dv) IN
              /\ pr.h <= q.height
              /\ ~IsPendingKey(c, q, k) /\ k \notin q.committed
              /\ k \notin KeysOfIds(c, a.ids)      \* (being committed by this very block)
              /\ ~ExpiredBoth(c, q.height, pr.h, TimeAt(c, pr.h))
        THEN {"BufferFlushed"} ELSE {})
  \* committed markers only grow, and only by the block's evidence
\cup (IF ~(p.committed \subseteq q.committed) THEN {"CommittedKept"} ELSE {})
\cup (IF ~IsUpd(a) /\ q.committed # p.committed THEN {"CommittedKept"} ELSE {})
\cup (IF ~(p.durable \subseteq q.durable) THEN {"CommittedKept"} ELSE {})
\cup (IF IsUpdEnd(a) /\ a.res # "panic" /\ ~({KeyOf(c, a.ids[i]) : i \in DOMAIN a.ids} \subseteq q.committed) THEN {"CommittedKept"} ELSE {})

\* class string of a violation: narrows known-finding signatures to the input class / call site
ClassOf(c, p, q, a, inv) ==
  CASE inv = "SizeExact" ->
         a.name \o (IF q.size > Cardinality(q.pending) THEN ":over" ELSE ":under")
         \o (IF a.name = "Check" /\ \E i \in DOMAIN a.ids : ~IsDv(c, a.ids[i]) /\ IsPendingKey(c, p, KeyOf(c, a.ids[i]))
             THEN ":pending-light-evidence-readded"
             ELSE IF a.name = "Check" /\ \E i, j \in DOMAIN a.ids : i # j /\ KeyOf(c, a.ids[i]) = KeyOf(c, a.ids[j])
             THEN ":light-evidence-twice-in-list"
             ELSE IF a.name = "AddEnd" THEN ":concurrent-add-of-pending-key"
             ELSE ":other")
    [] inv = "BlockCheck" ->
         (IF \E i \in DOMAIN a.ids : IsDv(c, a.ids[i]) /\ IsPendingKey(c, p, KeyOf(c, a.ids[i]))
                                      /\ ExpiredBoth(c, p.height, HOf(c, a.ids[i]), TOf(c, a.ids[i]))
          THEN "expired-pending-duplicate-vote-accepted" ELSE "other")
    [] inv = "OnceOnly" ->
         (IF a.name = "AddEnd" THEN "add-stored-after-commit"
          ELSE IF a.name = "UpdateEnd" THEN "committed-marker-written-after-item-was-readded"
          ELSE IF a.name = "Restart" THEN "restart-forgets-evidence-of-applied-block"
          ELSE a.name)
    [] inv = "AdmitOnlyAdmissible" ->
         (IF a.name = "AddEnd" /\ \E x \in NewIn(p, q) : KeyOf(c, x) \in p.committed THEN "add-stored-after-commit"
          ELSE IF a.name = "Update" THEN "Update:evidence-from-buffered-votes-does-not-prove"
          ELSE a.name)
    [] inv = "NoPanic" -> a.name \o ":panic"
    [] OTHER -> a.name
=============================================================================
