------------------------------ MODULE TMQuery ------------------------------
(* The query language of libs/pubsub/query (query.go: Matches, match, matchValue) as
   operators over values.  ONE source of truth: TMPubSub (which subscriber must receive
   a publication) and TMIndexer (what a search must return) both use Matches below.

   A query   = sequence of conditions  [key, op, kind, arg]            (implicit AND)
       op   \in {"=", "<", "<=", ">", ">=", "CONTAINS", "EXISTS"}
       kind \in {"int", "float", "str", "none"}   (type of the operand as the PEG grammar
                                                    produced it; "none" for EXISTS)
       arg  = the operand as written in the query text (always a string here)
   An event map = sequence of [k |-> composite key, v |-> sequence of value strings]
   (map[string][]string; the values of a key keep their order, keys are unique).

   Values are real strings and are parsed here the way the Go code parses them
   (numRegex.FindString, strconv.ParseInt / ParseFloat, int64() truncation), so that
   "10atom", "1.5", "abc", "", "1.2.3" and values containing "/" get exactly the
   treatment the code gives them.  Numbers are fixed point with 3 decimals (TLC has
   32-bit integers): the alphabets used by the checks keep integer parts < 10^6 and at
   most 3 fractional digits.  DATE/TIME operands are not modelled (documented limit). *)
EXTENDS Integers, Sequences, FiniteSets

Ch(s, i) == SubSeq(s, i, i)
DigitSet == {"0", "1", "2", "3", "4", "5", "6", "7", "8", "9"}
DigitVal(c) == CASE c = "0" -> 0 [] c = "1" -> 1 [] c = "2" -> 2 [] c = "3" -> 3 [] c = "4" -> 4
                 [] c = "5" -> 5 [] c = "6" -> 6 [] c = "7" -> 7 [] c = "8" -> 8 [] c = "9" -> 9
IsNumCh(c) == c \in DigitSet \/ c = "."

\* strings.Contains(s, sub)
StrContains(s, sub) ==
  \/ Len(sub) = 0
  \/ \E i \in 1..(Len(s) - Len(sub) + 1) : SubSeq(s, i, i + Len(sub) - 1) = sub
\* strings.HasPrefix(s, p)
StrHasPrefix(s, p) == Len(p) <= Len(s) /\ SubSeq(s, 1, Len(p)) = p
\* strings.Count(s, c) for a one-character c
StrCount(s, c) == Cardinality({i \in 1..Len(s) : Ch(s, i) = c})
\* position of the n-th occurrence of the one-character c in s (0 if none)
StrNth(s, c, n) ==
  LET P == {i \in 1..Len(s) : Ch(s, i) = c /\ Cardinality({j \in 1..i : Ch(s, j) = c}) = n}
  IN IF P = {} THEN 0 ELSE CHOOSE i \in P : TRUE

\* numRegex = `([0-9\.]+)`; FindString = leftmost, longest run of digits and dots ("" if none)
NumFiltered(s) ==
  LET starts == {i \in 1..Len(s) : IsNumCh(Ch(s, i))} IN
  IF starts = {} THEN ""
  ELSE LET st == CHOOSE i \in starts : \A j \in starts : i <= j
           en == CHOOSE j \in st..Len(s) :
                   /\ \A k \in st..j : IsNumCh(Ch(s, k))
                   /\ (j = Len(s) \/ ~IsNumCh(Ch(s, j + 1)))
       IN SubSeq(s, st, en)

RECURSIVE DigitsVal(_)
\* value of a (possibly empty) digit string
DigitsVal(d) == IF Len(d) = 0 THEN 0 ELSE 10 * DigitsVal(SubSeq(d, 1, Len(d) - 1)) + DigitVal(Ch(d, Len(d)))

\* fractional digits -> thousandths (at most 3 digits are significant in the model)
FracVal(f) == LET p == SubSeq(f \o "000", 1, 3) IN DigitsVal(p)

NumErr == [ok |-> FALSE, x |-> 0, isfloat |-> FALSE]
\* strconv.ParseInt(f,10,64) when f has no dot, strconv.ParseFloat(f,64) when it has:
\* f consists of digits and dots only.  x = value * 1000.
ParseNum(f) ==
  LET nd == StrCount(f, ".") IN
  IF Len(f) = 0 THEN NumErr
  ELSE IF nd = 0 THEN [ok |-> TRUE, x |-> 1000 * DigitsVal(f), isfloat |-> FALSE]
  ELSE IF nd > 1 \/ Len(f) = 1 THEN NumErr
  ELSE LET p  == StrNth(f, ".", 1)
           ip == SubSeq(f, 1, p - 1)
           fp == SubSeq(f, p + 1, Len(f))
       IN [ok |-> TRUE, x |-> 1000 * DigitsVal(ip) + FracVal(fp), isfloat |-> TRUE]

Cmp(op, a, b) == CASE op = "="  -> a = b
                   [] op = "<"  -> a < b
                   [] op = "<=" -> a <= b
                   [] op = ">"  -> a > b
                   [] op = ">=" -> a >= b
                   [] OTHER     -> FALSE      \* CONTAINS on a number: falls out of the switch

\* matchValue(value, op, operand): "TRUE" | "FALSE" | "ERR"
MatchValue(value, c) ==
  IF c.kind = "str" THEN
       IF c.op = "=" THEN (IF value = c.arg THEN "TRUE" ELSE "FALSE")
       ELSE IF c.op = "CONTAINS" THEN (IF StrContains(value, c.arg) THEN "TRUE" ELSE "FALSE")
       ELSE "FALSE"
  ELSE LET v == ParseNum(NumFiltered(value))
           o == ParseNum(c.arg)
       IN IF ~v.ok THEN "ERR"
          ELSE IF c.kind = "int"
               \* int64 operand: a float-looking value is truncated (int64(v1))
               THEN (IF Cmp(c.op, v.x \div 1000, o.x \div 1000) THEN "TRUE" ELSE "FALSE")
               ELSE (IF Cmp(c.op, v.x, o.x) THEN "TRUE" ELSE "FALSE")

HasKey(events, k) == \E i \in 1..Len(events) : events[i].k = k
ValuesOf(events, k) == LET i == CHOOSE j \in 1..Len(events) : events[j].k = k IN events[i].v

RECURSIVE MatchValues(_, _, _)
\* match(): values in order; the first error or the first match decides
MatchValues(vs, i, c) ==
  IF i > Len(vs) THEN "FALSE"
  ELSE LET r == MatchValue(vs[i], c) IN
       IF r = "FALSE" THEN MatchValues(vs, i + 1, c) ELSE r

MatchCond(c, events) ==
  IF c.op = "EXISTS" THEN
       IF StrContains(c.key, ".")
       THEN (IF HasKey(events, c.key) THEN "TRUE" ELSE "FALSE")
       \* no dot: any composite key that starts with the text (strings.Index(..) == 0)
       ELSE (IF \E i \in 1..Len(events) : StrHasPrefix(events[i].k, c.key) THEN "TRUE" ELSE "FALSE")
  ELSE IF ~HasKey(events, c.key) THEN "FALSE"
  ELSE MatchValues(ValuesOf(events, c.key), 1, c)

RECURSIVE MatchFrom(_, _, _)
\* conditions left to right; the first FALSE or ERR decides (later conditions are not evaluated)
MatchFrom(q, i, events) ==
  IF i > Len(q) THEN "TRUE"
  ELSE LET r == MatchCond(q[i], events) IN
       IF r = "TRUE" THEN MatchFrom(q, i + 1, events) ELSE r

\* Query.Matches(events): (true,nil) | (false,nil) | (false,err)
Matches(q, events) == IF Len(events) = 0 THEN "FALSE" ELSE MatchFrom(q, 1, events)

\* ---------------------------------------------------------------- helpers for alphabets
Cond(key, op, kind, arg) == [key |-> key, op |-> op, kind |-> kind, arg |-> arg]
IsRangeOp(op) == op \in {"<", "<=", ">", ">="}
\* value classes (used only to label disagreements narrowly)
IsCanonInt(s) == /\ Len(s) > 0
                 /\ \A i \in 1..Len(s) : Ch(s, i) \in DigitSet
                 /\ (Len(s) = 1 \/ Ch(s, 1) # "0")
=============================================================================
