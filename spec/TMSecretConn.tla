---------------------------- MODULE TMSecretConn ----------------------------
(* The p2p secret connection of p2p/conn/secret_connection.go (Station-to-Station
   handshake + framed AEAD stream), symbolic, with a Dolev-Yao attacker M that owns the
   wire between the two honest parties A and B.                              (C16)

   CRYPTOGRAPHY IS AXIOMATIC (stated as assumptions in the evidence):
     * X25519:   DH(x, Y) = DH(y, X) =: the set {x, y} of the two ephemerals; only a holder
                 of one of the two private keys can compute it.  For a LOW-ORDER point L,
                 DH(x, L) = Zero, a public constant (curve25519.X25519 then returns an error).
     * merlin transcript / HKDF: injective in their inputs -> the challenge IS the record
                 [lo, hi, dh]; an AEAD key IS the record [dh, half].
     * ed25519:  Sig(p, c) = [signer |-> p, msg |-> c] can only be produced by p.
     * ChaCha20-Poly1305: a sealed frame [key, nonce, plaintext] opens iff the reader uses
                 exactly (key, nonce) and the frame is bit-identical to what was sealed
                 (st = "ok"); nobody can seal without the key.

   THE HANDSHAKE AND STREAM LOGIC FOLLOW THE CODE STEP BY STEP:
     MakeSecretConnection :  genEphKeys; shareEphPubKey (write || read)   -> SendEph, MEph, ProcessEph
                             sort32; transcript(lo, hi); locIsLeast; computeDHSecret (error on
                             low-order point); transcript(dh); deriveSecrets(dh, locIsLeast);
                             challenge := transcript.Extract; signChallenge;
                             shareAuthSignature (write one sealed frame || read)  -> ProcessEph, RecvAuth
                             remPubKey.VerifySignature(challenge, remSignature)   -> RecvAuth
     Write :                 chunks of dataMaxSize=1024, Seal(sendAead, sendNonce, frame); incrNonce
     Read  :                 recvBuffer first; else ReadFull(1044); Open(recvAead, recvNonce);
                             incrNonce only after a successful Open; copy; keep the rest in recvBuffer

   Byte positions are real integers: a data frame carries the interval (lo, hi] of the
   writer's plaintext stream, so every write-size / read-size pattern is represented
   exactly, not by classes.

   PROPERTIES (DESIGN.md section 5, C16): Authenticated (AuthenticatedExceptSelf + the known
   finding, see below), NonceFresh, PrefixExact, TamperFails, DeliveredExact; IdentityBound
   lives in TMPeerUpgrade.tla.  TamperFails is stated as the property statement has it ("the
   reader fails; never altered or out-of-order plaintext"): after a failed Read the code does
   NOT poison the connection, so a frame M merely inserted is refused and the genuine next
   frame is still accepted afterwards -- in order, which the statement allows.

   NOT MODELLED (named so that nobody takes them for covered): an ephemeral-key message of a
   length other than 32 (the code zero-pads / truncates it), an AuthSigMessage spread over
   several frames or followed by data in the same frame (only a key holder can do that), the
   chunkLength > dataMaxSize error (ditto), a public key of another type than ed25519,
   concurrent callers of Write / Read (the two mutexes), nonce overflow (2^64 frames), and
   more than one session per honest party (earlier sessions appear only as the signatures
   Sig(., OldChal) the attacker holds).                                               *)
EXTENDS Integers, Sequences, FiniteSets, TLC

CONSTANTS
  Honest,        \* {"A", "B"}
  Ranks,         \* set of functions eph-name -> Nat: the byte order of the ephemeral keys (sort32)
  EphKinds,      \* what M may hand to X as "the remote ephemeral": subset of {"peer","own","mine","low"}
  MEphs,         \* M's own ephemerals (M holds their private keys), e.g. {"eM"}
  LowPts,        \* low-order points M may send, subset of {"lowMin", "lowMax"}
  HsEdits,       \* BOOLEAN: M may edit / forge frames while the receiver is still in the handshake
  WSizes,        \* [Honest -> set of write sizes]
  RSizes,        \* [Honest -> set of read sizes]
  MaxFrames,     \* data frames per writer
  MaxReads,      \* Read calls per reader
  MaxEdits,      \* attacker frame edits in total
  MaxFaults,     \* late transport errors per writer (Write returns an error although the frame left)
  EditOps,       \* subset of {"flip","drop","swap","replay","reflect","inject","trunc","eof"}
  \* ---- bug switches (all FALSE in the real configs) ---------------------------------
  Weak_ChallengeNotBound,      \* the signed challenge does not depend on the transcript (a constant)
  Weak_ChallengeDHOnly,        \* the challenge depends on the DH secret only, not on the two ephemeral keys
                               \*   (harmless alone; with Weak_AcceptLowOrder it is the pre-transcript attack:
                               \*   M forces the same zero secret on both sides and relays the signatures)
  Weak_AcceptLowOrder,         \* computeDHSecret does not reject the all-zero shared secret
  Weak_NonceNotIncremented,    \* Write does not call incrNonce(sendNonce)
  Weak_RecvNonceNotIncremented,\* Read does not call incrNonce(recvNonce)
  Weak_SameKeyBothDirections,  \* deriveSecrets ignores locIsLeast (recvSecret = sendSecret)
  Weak_ReadIgnoresAuthError,   \* Read goes on after recvAead.Open failed
  Weak_VerifyWrongKey,         \* the remote signature is verified against the LOCAL public key
  Weak_NonceAfterTransportWrite, \* Write calls incrNonce(sendNonce) only after sc.conn.Write returned nil
  Weak_AuthSkipsVerifyForOtherKeyTypes \* the key-type check and the signature check are merged wrongly: a remote key
                                       \*   that is not ed25519 is accepted WITHOUT any signature verification

Attacker == "M"
Nobody   == "Z"          \* an identity whose private key nobody holds
\* The AuthSigMessage carries a tendermint.crypto.PublicKey, a oneof {ed25519, secp256k1}
\* (crypto/encoding PubKeyFromProto decodes both); MakeSecretConnection accepts ed25519 only.
OtherKey == "K"          \* a secp256k1 key (M holds its private key and can make valid signatures with it)
BadKey   == "U"          \* an undecodable key (empty oneof / wrong length): PubKeyFromProto fails
KeyType(p) == IF p = OtherKey THEN "secp256k1" ELSE IF p = BadKey THEN "undecodable" ELSE "ed25519"
MPubs == {Attacker, Nobody, OtherKey, BadKey}   \* identities M may present besides the honest ones
Eph(X)   == "e" \o X
Peer(X)  == CHOOSE Y \in Honest : Y # X
LowOrder == {"lowMin", "lowMax"}
DataMax  == 1024         \* dataMaxSize
AuthLen  == 103          \* length of the length-delimited AuthSigMessage (ed25519 key + signature)
MinOf(a, b) == IF a < b THEN a ELSE b

\* ---------------------------------------------------------------- symbolic crypto
Zero == {"zero"}
DH(loc, rem) == IF rem \in LowOrder THEN Zero ELSE {loc, rem}           \* computeDHSecret
DHFails(rem) == rem \in LowOrder /\ ~Weak_AcceptLowOrder                \* "bad input point: low order point"
\* sort32 + locIsLeast := bytes.Equal(locEphPub, loEphPub)  (equal keys: lo = rem = loc -> TRUE)
Least(rk, loc, rem) == rk[loc] <= rk[rem]
Transcript(rk, loc, rem) ==
  [lo |-> IF Least(rk, loc, rem) THEN loc ELSE rem,
   hi |-> IF Least(rk, loc, rem) THEN rem ELSE loc,
   dh |-> DH(loc, rem)]
NoChal    == [lo |-> "", hi |-> "", dh |-> {}]
ConstChal == [lo |-> "-", hi |-> "-", dh |-> {"const"}]
OldChal   == [lo |-> "eM", hi |-> "eOld", dh |-> {"eM", "eOld"}]   \* an earlier session in which M was the legitimate peer
\* challenge := transcript.ExtractBytes(labelSecretConnectionMac)
Chal(tr) == IF Weak_ChallengeNotBound THEN ConstChal
            ELSE IF Weak_ChallengeDHOnly THEN [lo |-> "-", hi |-> "-", dh |-> tr.dh]
            ELSE tr

Key(dh, half) == [dh |-> dh, half |-> half]
MKey == [dh |-> {"mkey"}, half |-> 0]         \* a key only M holds (injected frames)
\* deriveSecrets: locIsLeast -> recv = res[0:32] (half 1), send = res[32:64] (half 2); else swapped
SendKey(rk, loc, rem) ==
  Key(DH(loc, rem), IF Weak_SameKeyBothDirections THEN 1 ELSE IF Least(rk, loc, rem) THEN 2 ELSE 1)
RecvKey(rk, loc, rem) ==
  Key(DH(loc, rem), IF Weak_SameKeyBothDirections THEN 1 ELSE IF Least(rk, loc, rem) THEN 1 ELSE 2)
\* M can compute a DH secret iff it is the public Zero or M holds one of the two private keys
MKnowsDH(dh) == dh = Zero \/ dh \cap MEphs # {}

Sig(p, c) == [signer |-> p, msg |-> c]
NoSig     == [signer |-> "none", msg |-> NoChal]

\* a sealed frame (totalFrameSize + aeadSizeOverhead = 1044 bytes on the wire)
Frame(key, nonce, kind, pub, sig, src, lo, hi) ==
  [key |-> key, nonce |-> nonce, kind |-> kind, pub |-> pub, sig |-> sig, src |-> src, lo |-> lo, hi |-> hi,
   st |-> "ok"]
NoFrame == [key |-> MKey, nonce |-> -1, kind |-> "none", pub |-> "none", sig |-> NoSig, src |-> "none",
            lo |-> 0, hi |-> 0, st |-> "none"]
JunkFrame == Frame(MKey, 0, "data", "none", NoSig, Attacker, 0, 1)

NoSeg == [src |-> "none", lo |-> 0, hi |-> 0]
AddSeg(d, seg) ==
  IF seg.lo = seg.hi THEN d
  ELSE IF d # << >> /\ d[Len(d)].src = seg.src /\ d[Len(d)].hi = seg.lo
       THEN [d EXCEPT ![Len(d)].hi = seg.hi]
       ELSE Append(d, seg)

\* ---------------------------------------------------------------- session state of an honest party
NewSess ==
  [pc |-> "start",          \* start -> auth -> established | failed
   ephSent |-> FALSE,       \* shareEphPubKey: the write task has run
   remEph |-> "none", err |-> "none", remPub |-> "none", remSig |-> NoSig,
   sendNonce |-> 0, recvNonce |-> 0,
   buf |-> NoSeg,           \* recvBuffer: the unread rest of the last chunk
   sentLen |-> 0,           \* plaintext bytes written so far
   nframes |-> 0, reads |-> 0,
   wfaults |-> 0,           \* how many Write calls ended with a (late) transport error
   delivered |-> << >>,     \* ghost: plaintext returned by Read so far, as merged segments
   gen |-> 0,               \* ghost: how many of the peer's frames were consumed in order
   last |-> [tam |-> FALSE, err |-> "none", n |-> 0]]   \* ghost: the last Read / RecvAuth

\* ---------------------------------------------------------------- MakeSecretConnection, first half
\* after both tasks of shareEphPubKey: sort, DH, derive, sign, seal the AuthSigMessage (one frame)
ProcessEphOp(rk, X, s, e) ==
  IF DHFails(e)
  THEN [s |-> [s EXCEPT !.pc = "failed", !.remEph = e, !.err = "low_order"], out |-> << >>]
  ELSE LET tr  == Transcript(rk, Eph(X), e)
           sig == Sig(X, Chal(tr))
           f   == Frame(SendKey(rk, Eph(X), e), 0, "auth", X, sig, X, 0, 0)
       IN [s |-> [s EXCEPT !.pc = "auth", !.remEph = e,
                           !.sendNonce = IF Weak_NonceNotIncremented THEN 0 ELSE 1],
           out |-> <<f>>]

\* ghost: f is "ciphertext changed in transit" iff X really runs its exchange with the other
\* honest party (otherwise the party at the other end of X's exchange is M itself and whatever
\* M sends is simply what X's peer wrote) and f is not the frame that peer sent next
Tampered(X, s, f, genuine) == s.remEph = Eph(Peer(X)) /\ f # genuine

Opens(rk, X, s, f) ==
  f.st = "ok" /\ f.key = RecvKey(rk, Eph(X), s.remEph) /\ f.nonce = s.recvNonce
NextRecvNonce(s) == IF Weak_RecvNonceNotIncremented THEN s.recvNonce ELSE s.recvNonce + 1

\* second half: read one frame through sc.Read, parse AuthSigMessage, verify
\* (genuine = the frame the peer really sent next, for the ghost fields only)
RecvAuthOp(rk, X, s, f, genuine) ==
  LET tam  == Tampered(X, s, f, genuine)
      fail(e, nn) == [s EXCEPT !.pc = "failed", !.err = e, !.recvNonce = nn,
                               !.last = [tam |-> tam, err |-> e, n |-> 0]]
  IN
  IF f.st = "part" THEN fail("unexpected_eof", s.recvNonce)
  ELSE IF ~Opens(rk, X, s, f) THEN
     IF Weak_ReadIgnoresAuthError THEN fail("parse", NextRecvNonce(s)) ELSE fail("decrypt", s.recvNonce)
  ELSE IF f.kind # "auth" THEN fail("parse", NextRecvNonce(s))
  ELSE IF KeyType(f.pub) = "undecodable" THEN fail("parse", NextRecvNonce(s))          \* cryptoenc.PubKeyFromProto
  ELSE IF KeyType(f.pub) # "ed25519" /\ ~Weak_AuthSkipsVerifyForOtherKeyTypes
       THEN fail("keytype", NextRecvNonce(s))                                           \* "expected ed25519 pubkey"
  ELSE IF KeyType(f.pub) # "ed25519"                                                    \* (weak) no verification at all
       THEN [s EXCEPT !.pc = "established", !.remPub = f.pub, !.remSig = f.sig,
                      !.recvNonce = NextRecvNonce(s), !.gen = IF tam THEN @ ELSE @ + 1,
                      !.last = [tam |-> tam, err |-> "none", n |-> 0]]
  ELSE LET vk   == IF Weak_VerifyWrongKey THEN X ELSE f.pub
           good == f.sig.signer = vk /\ f.sig.msg = Chal(Transcript(rk, Eph(X), s.remEph))
       IN IF ~good THEN fail("challenge", NextRecvNonce(s))
          ELSE [s EXCEPT !.pc = "established", !.remPub = f.pub, !.remSig = f.sig,
                         !.recvNonce = NextRecvNonce(s),
                         !.gen = IF tam THEN @ ELSE @ + 1,
                         !.last = [tam |-> tam, err |-> "none", n |-> 0]]
RecvAuthEof(s) == [s EXCEPT !.pc = "failed", !.err = "eof", !.last = [tam |-> FALSE, err |-> "eof", n |-> 0]]

\* ---------------------------------------------------------------- SecretConnection.Write
NFrames(size) == (size + DataMax - 1) \div DataMax
\* fail = 0: every sc.conn.Write succeeds.  fail = j >= 1: the TRANSPORT reports an error for the j-th
\* sealed frame of this call although the frame has left the host (a net.Conn whose write deadline
\* fires after the bytes went out, any wrapper that reports an error late): frames 1..j are on the
\* wire, Write returns (bytes of frames 1..j-1, err) -- and the caller may call Write again.
\* The code seals, increments sendNonce, THEN writes: the nonce of frame j is consumed whatever
\* the transport says.  (Weak_NonceAfterTransportWrite: incrNonce only after a successful write.)
WriteOp(rk, X, s, size, fail) ==
  LET k  == IF fail = 0 THEN NFrames(size) ELSE fail
      fs == [i \in 1..k |->
               Frame(SendKey(rk, Eph(X), s.remEph),
                     IF Weak_NonceNotIncremented THEN s.sendNonce ELSE s.sendNonce + i - 1,
                     "data", "none", NoSig, X,
                     s.sentLen + DataMax * (i - 1), s.sentLen + MinOf(size, DataMax * i))]
      used == IF fail > 0 /\ Weak_NonceAfterTransportWrite THEN k - 1 ELSE k
  IN [s |-> [s EXCEPT !.sendNonce = IF Weak_NonceNotIncremented THEN @ ELSE @ + used,
                      !.sentLen = @ + MinOf(size, DataMax * k),    \* bytes that were sealed and left
                      !.nframes = @ + k,
                      !.wfaults = IF fail > 0 THEN @ + 1 ELSE @],
      out |-> fs,
      n   |-> IF fail = 0 THEN size ELSE DataMax * (fail - 1),
      err |-> IF fail = 0 THEN "none" ELSE "transport"]

\* ---------------------------------------------------------------- SecretConnection.Read
\* ib = frames on the wire towards X (closed stream if ib is empty, otherwise Read would block)
ReadOp(rk, X, s, size, ib, genuine) ==
  LET done(ss, took) == [s |-> [ss EXCEPT !.reads = @ + 1], took |-> took] IN
  IF s.buf.lo < s.buf.hi THEN                                    \* 0 < len(sc.recvBuffer)
    LET n == MinOf(size, s.buf.hi - s.buf.lo) IN
    done([s EXCEPT !.buf = IF n = s.buf.hi - s.buf.lo THEN NoSeg ELSE [@ EXCEPT !.lo = @ + n],
                   !.delivered = AddSeg(@, [src |-> s.buf.src, lo |-> s.buf.lo, hi |-> s.buf.lo + n]),
                   !.last = [tam |-> FALSE, err |-> "none", n |-> n]], 0)
  ELSE IF ib = << >> THEN                                        \* io.ReadFull: EOF
    done([s EXCEPT !.last = [tam |-> FALSE, err |-> "eof", n |-> 0]], 0)
  ELSE
    LET f   == Head(ib)
        tam == Tampered(X, s, f, genuine)
    IN
    IF f.st = "part" THEN                                        \* io.ReadFull: ErrUnexpectedEOF
      done([s EXCEPT !.last = [tam |-> tam, err |-> "unexpected_eof", n |-> 0]], 1)
    ELSE IF ~Opens(rk, X, s, f) THEN
      IF Weak_ReadIgnoresAuthError
      THEN \* Open zeroes the output on failure: chunkLength = 0, nothing delivered, no error
           done([s EXCEPT !.recvNonce = NextRecvNonce(s), !.last = [tam |-> tam, err |-> "none", n |-> 0]], 1)
      ELSE done([s EXCEPT !.last = [tam |-> tam, err |-> "decrypt", n |-> 0]], 1)
    ELSE
      \* the plaintext of a handshake frame read as data: AuthLen bytes that are not stream bytes
      LET src == IF f.kind = "data" THEN f.src ELSE "hs:" \o f.src
          lo  == f.lo
          hi  == IF f.kind = "data" THEN f.hi ELSE AuthLen
          n   == MinOf(size, hi - lo)
      IN done([s EXCEPT !.recvNonce = NextRecvNonce(s),
                        !.buf = IF n < hi - lo THEN [src |-> src, lo |-> lo + n, hi |-> hi] ELSE NoSeg,
                        !.delivered = AddSeg(@, [src |-> src, lo |-> lo, hi |-> lo + n]),
                        !.gen = IF tam THEN @ ELSE @ + 1,
                        !.last = [tam |-> tam, err |-> "none", n |-> n]], 1)

\* ---------------------------------------------------------------- properties, as operators over values
\* (used by the state machine below and by trace/TMSecretConnTrace.tla on OBSERVED values)

\* Authenticated: X holds an established connection with identity P only if
\*   - P is the attacker's own identity and the accepted signature was made by M (M proved its key), or
\*   - P is the OTHER honest party and P signed in a session over the very same ephemeral exchange
\*     (matching conversation: P's local ephemeral is X's remote one and vice versa).
\* Anything else -- X's own identity reflected, an identity nobody holds, an honest identity
\* whose owner ran a different exchange (a relayed signature) -- violates it.
AuthenticatedAt(ss, X) ==
  ss[X].pc = "established" =>
    LET P == ss[X].remPub IN
    IF KeyType(P) # "ed25519" THEN FALSE        \* only an ed25519 identity may ever be accepted
    ELSE IF P = Attacker THEN ss[X].remSig.signer = Attacker
    ELSE IF P \in Honest /\ P # X
         THEN /\ ss[P].pc \in {"auth", "established", "failed"}
              /\ ss[P].remEph = Eph(X)
              /\ ss[X].remEph = Eph(P)
         ELSE FALSE
AuthClass(ss, X) ==
  LET P == ss[X].remPub IN
  IF KeyType(P) # "ed25519" THEN "key_type_not_accepted:" \o KeyType(P)
  ELSE IF P = X THEN (IF ss[X].remSig.signer = X THEN "own_identity_reflected" ELSE "own_identity_without_signature")
  ELSE IF P = Attacker THEN "attacker_identity_without_its_signature"
  ELSE IF P \in Honest THEN "honest_identity_from_another_exchange"
  ELSE "identity_nobody_holds"

\* NonceFresh: no two frames sealed by honest parties use the same (key, nonce)
NonceFreshAt(o) ==
  \A X \in Honest, Y \in Honest :
    \A i \in 1..Len(o[X]), j \in 1..Len(o[Y]) :
      (o[X][i].key = o[Y][j].key /\ o[X][i].nonce = o[Y][j].nonce) => (X = Y /\ i = j)

\* PrefixExact: what X has read is a prefix of what its peer wrote
PrefixExactAt(ss, X) ==
  LET d == ss[X].delivered IN
  \/ d = << >>
  \/ /\ Len(d) = 1
     /\ d[1].src = Peer(X)
     /\ d[1].lo = 0
     /\ d[1].hi <= ss[Peer(X)].sentLen

\* TamperFails: a Read (or the handshake read) that touches anything but the frame the peer
\* really sent next fails and yields no plaintext
TamperFailsAt(ss, X) == ss[X].last.tam => (ss[X].last.err # "none" /\ ss[X].last.n = 0)

\* DeliveredExact: with an untouched wire nothing fails, and once everything written has been
\* passed on and read, the reader holds exactly the writer's bytes
DeliveredExactAt(ss, o, ib, fw, dr, X) ==
  LET P == Peer(X) IN
  (~dr[X] /\ ss[X].pc = "established") =>
     /\ ss[X].last.err = "none"
     /\ (ib[X] = << >> /\ fw[X] = Len(o[P]) /\ ss[X].buf = NoSeg) =>
          ss[X].delivered = AddSeg(<< >>, [src |-> P, lo |-> 0, hi |-> ss[P].sentLen])

\* ---------------------------------------------------------------- the state machine
VARIABLES
  rank,     \* the byte order of the ephemerals in this behaviour
  sess,     \* [Honest -> session]
  ephIn,    \* [Honest -> eph name | "none"]  the ephemeral-key message M put on the wire towards X
  out,      \* [Honest -> Seq(Frame)]  every frame X sealed and wrote (M sees all of it)
  inbox,    \* [Honest -> Seq(Frame)]  frames on the wire towards X, not yet consumed
  closed,   \* [Honest -> BOOLEAN]     M closed the byte stream towards X
  fwd,      \* [Honest -> Nat]         how many of the peer's frames M has passed on or skipped
  dirty,    \* [Honest -> BOOLEAN]     ghost: M did anything but in-order forwarding towards X
  edits,    \* number of attacker edits so far
  act       \* the action that produced this state (read by the replay driver)
vars == <<rank, sess, ephIn, out, inbox, closed, fwd, dirty, edits, act>>

Init ==
  /\ rank \in Ranks
  /\ sess = [X \in Honest |-> NewSess]
  /\ ephIn = [X \in Honest |-> "none"]
  /\ out = [X \in Honest |-> << >>]
  /\ inbox = [X \in Honest |-> << >>]
  /\ closed = [X \in Honest |-> FALSE]
  /\ fwd = [X \in Honest |-> 0]
  /\ dirty = [X \in Honest |-> FALSE]
  /\ edits = 0
  /\ act = [name |-> "Init"]

Genuine(X) == IF sess[X].gen < Len(out[Peer(X)]) THEN out[Peer(X)][sess[X].gen + 1] ELSE NoFrame

\* ---- honest steps
\* Reduction (sound: writing the ephemeral key needs no input and only adds to what M knows, and
\* M can always hold a message back): both parties write their ephemeral key before M moves,
\* A first.
AllSent == \A Y \in Honest : sess[Y].ephSent
SendEph(X) ==
  /\ sess[X].pc = "start" /\ ~sess[X].ephSent
  /\ (X # "A" => sess["A"].ephSent)
  /\ sess' = [sess EXCEPT ![X].ephSent = TRUE]
  /\ act' = [name |-> "SendEph", p |-> X]
  /\ UNCHANGED <<rank, ephIn, out, inbox, closed, fwd, dirty, edits>>

ProcessEph(X) ==
  /\ sess[X].pc = "start" /\ sess[X].ephSent /\ ephIn[X] # "none"
  /\ LET r == ProcessEphOp(rank, X, sess[X], ephIn[X]) IN
       /\ sess' = [sess EXCEPT ![X] = r.s]
       /\ out' = [out EXCEPT ![X] = @ \o r.out]
  /\ act' = [name |-> "ProcessEph", p |-> X]
  /\ UNCHANGED <<rank, ephIn, inbox, closed, fwd, dirty, edits>>

RecvAuth(X) ==
  /\ sess[X].pc = "auth"
  /\ \/ /\ inbox[X] # << >>
        /\ sess' = [sess EXCEPT ![X] = RecvAuthOp(rank, X, sess[X], Head(inbox[X]), Genuine(X))]
        /\ inbox' = [inbox EXCEPT ![X] = Tail(@)]
     \/ /\ inbox[X] = << >> /\ closed[X]
        /\ sess' = [sess EXCEPT ![X] = RecvAuthEof(sess[X])]
        /\ UNCHANGED inbox
  \* act carries the frame consumed, so that in the act-augmented graph (replay configs, no VIEW)
  \* "X consumed THIS frame" is a state of its own and is replayed even when the resulting
  \* session state was already reached some other way
  /\ act' = [name |-> "RecvAuth", p |-> X, took |-> IF inbox[X] = << >> THEN NoFrame ELSE Head(inbox[X])]
  /\ UNCHANGED <<rank, ephIn, out, closed, fwd, dirty, edits>>

Write(X, size, fail) ==
  /\ sess[X].pc = "established"
  /\ sess[X].nframes + NFrames(size) <= MaxFrames
  /\ fail \in 0..NFrames(size)
  /\ (fail > 0 => sess[X].wfaults < MaxFaults)
  /\ LET r == WriteOp(rank, X, sess[X], size, fail) IN
       /\ sess' = [sess EXCEPT ![X] = r.s]
       /\ out' = [out EXCEPT ![X] = @ \o r.out]
  /\ act' = [name |-> "Write", p |-> X, size |-> size, fail |-> fail]
  /\ UNCHANGED <<rank, ephIn, inbox, closed, fwd, dirty, edits>>

Read(X, size) ==
  /\ sess[X].pc = "established"
  /\ sess[X].reads < MaxReads
  /\ (sess[X].buf.lo < sess[X].buf.hi \/ inbox[X] # << >> \/ closed[X])     \* otherwise the call blocks
  /\ LET r == ReadOp(rank, X, sess[X], size, inbox[X], Genuine(X)) IN
       /\ sess' = [sess EXCEPT ![X] = r.s]
       /\ inbox' = [inbox EXCEPT ![X] = SubSeq(@, r.took + 1, Len(@))]
  /\ act' = [name |-> "Read", p |-> X, size |-> size,
             took |-> IF sess[X].buf.lo < sess[X].buf.hi \/ inbox[X] = << >> THEN NoFrame ELSE Head(inbox[X])]
  /\ UNCHANGED <<rank, ephIn, out, closed, fwd, dirty, edits>>

\* ---- the attacker
\* which ephemeral M hands to X
EphChoices(X) ==
  LET P == Peer(X) IN
     (IF "peer" \in EphKinds /\ sess[P].ephSent THEN {Eph(P)} ELSE {})
  \cup (IF "own" \in EphKinds /\ sess[X].ephSent THEN {Eph(X)} ELSE {})
  \cup (IF "mine" \in EphKinds THEN MEphs ELSE {})
  \cup (IF "low" \in EphKinds THEN LowPts ELSE {})
MEph(X, e) ==
  /\ AllSent
  /\ ephIn[X] = "none"
  /\ e \in EphChoices(X)
  /\ ephIn' = [ephIn EXCEPT ![X] = e]
  /\ dirty' = [dirty EXCEPT ![X] = @ \/ e # Eph(Peer(X))]
  /\ act' = [name |-> "MEph", p |-> X, eph |-> e]
  /\ UNCHANGED <<rank, sess, out, inbox, closed, fwd, edits>>

\* Reduction (sound for the same reason): while X is still in the handshake it consumes exactly
\* one frame, so M puts the next one on the wire only when the previous one has been taken.
Open4(X) == /\ sess[X].pc \in {"auth", "established"} /\ ~closed[X]
            /\ (sess[X].pc = "auth" => inbox[X] = << >>)
MayEdit(X, op) ==
  /\ Open4(X) /\ edits < MaxEdits /\ op \in EditOps
  /\ (HsEdits \/ sess[X].pc = "established")

Deliver(X, items, adv, name, i) ==
  /\ inbox' = [inbox EXCEPT ![X] = @ \o items]
  /\ fwd' = [fwd EXCEPT ![X] = @ + adv]
  /\ act' = [name |-> "M", op |-> name, p |-> X, i |-> i]

\* pass the peer's next frame on, untouched
MForward(X) ==
  /\ Open4(X) /\ fwd[X] < Len(out[Peer(X)])
  /\ Deliver(X, <<out[Peer(X)][fwd[X] + 1]>>, 1, "fwd", fwd[X] + 1)
  /\ UNCHANGED <<rank, sess, ephIn, out, closed, dirty, edits>>

Edited(X) == /\ dirty' = [dirty EXCEPT ![X] = TRUE] /\ edits' = edits + 1
                 /\ UNCHANGED <<rank, sess, ephIn, out>>

MFlip(X) ==      \* change a bit of the next frame
  /\ MayEdit(X, "flip") /\ fwd[X] < Len(out[Peer(X)])
  /\ Deliver(X, <<[out[Peer(X)][fwd[X] + 1] EXCEPT !.st = "flip"]>>, 1, "flip", fwd[X] + 1)
  /\ Edited(X) /\ UNCHANGED closed
MDrop(X) ==      \* remove the next frame
  /\ MayEdit(X, "drop") /\ fwd[X] < Len(out[Peer(X)])
  /\ Deliver(X, << >>, 1, "drop", fwd[X] + 1)
  /\ Edited(X) /\ UNCHANGED closed
MSwap(X) ==      \* reorder the next two frames
  /\ MayEdit(X, "swap") /\ fwd[X] + 2 <= Len(out[Peer(X)])
  /\ Deliver(X, <<out[Peer(X)][fwd[X] + 2], out[Peer(X)][fwd[X] + 1]>>, 2, "swap", fwd[X] + 1)
  /\ Edited(X) /\ UNCHANGED closed
MReplay(X, i) == \* send an earlier frame again
  /\ MayEdit(X, "replay") /\ i \in 1..fwd[X]
  /\ Deliver(X, <<out[Peer(X)][i]>>, 0, "replay", i)
  /\ Edited(X) /\ UNCHANGED closed
MReflect(X, i) == \* send X one of its own frames
  /\ MayEdit(X, "reflect") /\ i \in 1..Len(out[X])
  /\ Deliver(X, <<out[X][i]>>, 0, "reflect", i)
  /\ Edited(X) /\ UNCHANGED closed
MInject(X) ==    \* a frame sealed under a key of M's own
  /\ MayEdit(X, "inject")
  /\ Deliver(X, <<JunkFrame>>, 0, "inject", 0)
  /\ Edited(X) /\ UNCHANGED closed
MTrunc(X) ==     \* cut the stream in the middle of the next frame
  /\ MayEdit(X, "trunc") /\ fwd[X] < Len(out[Peer(X)])
  /\ Deliver(X, <<[out[Peer(X)][fwd[X] + 1] EXCEPT !.st = "part"]>>, 1, "trunc", fwd[X] + 1)
  /\ closed' = [closed EXCEPT ![X] = TRUE]
  /\ Edited(X)
MEof(X) ==       \* cut the stream at a frame boundary
  /\ MayEdit(X, "eof")
  /\ Deliver(X, << >>, 0, "eof", 0)
  /\ closed' = [closed EXCEPT ![X] = TRUE]
  /\ Edited(X)

\* M speaks the protocol itself towards X when it can compute X's receive key (X took one of
\* M's ephemerals or a low-order point): an AuthSigMessage with any public key and any
\* signature M can produce or has seen.
MSeenSigs ==  \* signatures in frames M can open, plus those of an earlier session
  {Sig(Y, OldChal) : Y \in Honest}
  \cup UNION {{out[Y][i].sig : i \in {j \in 1..Len(out[Y]) : out[Y][j].kind = "auth"}} :
                Y \in {Z \in Honest : sess[Z].pc # "start" /\ MKnowsDH(DH(Eph(Z), sess[Z].remEph))}}
MOwnSigs(X) == IF sess[X].remEph = "none" THEN {}
               ELSE {Sig(Attacker, Chal(Transcript(rank, Eph(X), sess[X].remEph))), Sig(Attacker, OldChal),
                     Sig(OtherKey, Chal(Transcript(rank, Eph(X), sess[X].remEph)))}   \* valid under the secp256k1 key
MForge(X, pub, sig, nonce) ==
  /\ HsEdits /\ sess[X].pc = "auth" /\ Open4(X) /\ edits < MaxEdits
  /\ MKnowsDH(DH(Eph(X), sess[X].remEph))
  /\ pub \in Honest \cup MPubs
  /\ sig \in MSeenSigs \cup MOwnSigs(X)
  /\ nonce \in {0, 1}
  /\ (nonce = 1 => (pub = Attacker /\ sig = Sig(Attacker, Chal(Transcript(rank, Eph(X), sess[X].remEph)))))
  /\ inbox' = [inbox EXCEPT ![X] =
                 Append(@, Frame(RecvKey(rank, Eph(X), sess[X].remEph), nonce, "auth", pub, sig, Attacker, 0, 0))]
  /\ act' = [name |-> "M", op |-> "forge", p |-> X, pub |-> pub, sig |-> sig, nonce |-> nonce]
  /\ dirty' = [dirty EXCEPT ![X] = TRUE] /\ edits' = edits + 1
  /\ UNCHANGED <<rank, sess, ephIn, out, closed, fwd>>

Next ==
  \E X \in Honest :
     \/ SendEph(X) \/ ProcessEph(X) \/ RecvAuth(X)
     \/ \E z \in WSizes[X], fl \in 0..MaxFrames : Write(X, z, fl)
     \/ \E z \in RSizes[X] : Read(X, z)
     \/ \E e \in MEphs \cup LowPts \cup {Eph(Y) : Y \in Honest} : MEph(X, e)
     \/ MForward(X) \/ MFlip(X) \/ MDrop(X) \/ MSwap(X) \/ MInject(X) \/ MTrunc(X) \/ MEof(X)
     \/ \E i \in 1..(MaxFrames + 1) : MReplay(X, i) \/ MReflect(X, i)
     \/ \E pub \in Honest \cup MPubs, sig \in MSeenSigs \cup MOwnSigs(X), nonce \in {0, 1} :
          MForge(X, pub, sig, nonce)

Spec == Init /\ [][Next]_vars

\* ---------------------------------------------------------------- properties (DESIGN.md section 5, C16)
Authenticated  == \A X \in Honest : AuthenticatedAt(sess, X)
\* The code as it stands does NOT satisfy Authenticated: both roles sign the same challenge, so
\* an M that takes part in X's key exchange with an ephemeral of its own can decrypt X's
\* AuthSigMessage and send it straight back; X then holds a connection "with itself"
\* (RemotePubKey() = its own key) whose keys M knows.  (Found by TLC on C16_hs_strict.cfg,
\* reproduced on the real MakeSecretConnection, recorded as known finding
\* C16-own-identity-reflection; p2p/transport.go upgrade refuses such a connection as "self".)
\* AuthenticatedExceptSelf is Authenticated minus exactly that class.
SelfAuthAt(ss, X)       == ss[X].pc = "established" /\ ss[X].remPub = X
AuthenticatedExceptSelf == \A X \in Honest : SelfAuthAt(sess, X) \/ AuthenticatedAt(sess, X)
NonceFresh     == NonceFreshAt(out)
PrefixExact    == \A X \in Honest : PrefixExactAt(sess, X)
TamperFails    == \A X \in Honest : TamperFailsAt(sess, X)
DeliveredExact == \A X \in Honest : DeliveredExactAt(sess, out, inbox, fwd, dirty, X)
\* a low-order point never gets past computeDHSecret (consequence of the above in the real spec)
LowOrderRefused == \A X \in Honest : sess[X].remEph \in LowOrder => sess[X].pc = "failed"

\* reachability goals (checked as invariants that MUST be violated: non-vacuity of the configs)
NeverBothEstablished == ~(\A X \in Honest : sess[X].pc = "established")
NeverMitmEstablished == ~(\E X \in Honest : sess[X].pc = "established" /\ sess[X].remPub = Attacker)

View == <<rank, sess, ephIn, out, inbox, closed, fwd, dirty, edits>>
=============================================================================
